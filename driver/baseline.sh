#!/bin/bash
# Runs the repository's 403-test stable baseline (names from /root/.vp/BASELINE.json) with the
# hook guard OFF, offline, by exact test name (the other 74 tests need a live PostgreSQL and
# retry for minutes before failing). Exit 0 iff every stable test passes.
set -u
cd /repo
names=$(python3 -c "
import json
b=json.load(open('/root/.vp/BASELINE.json'))
print(' '.join(n.split('::',1)[1] for n in b['stable_pass']))")
unset RUSTFLAGS
CARGO_NET_OFFLINE=true cargo test --offline --lib -- --exact $names 2>&1 | tail -n 25 | tee /tmp/baseline_tail.txt
grep -q "test result: ok. 403 passed" /tmp/baseline_tail.txt
