"""Generate the shadow manifest of qrlew from /repo/Cargo.toml (DESIGN 2): same package,
same dependencies, [lib] pointing at /repo/src through the symlink, plus shuttle under the
hook guard. Rewritten only when its content changes so cargo does not rebuild needlessly."""
import os, re

VERIF = os.path.dirname(os.path.dirname(os.path.abspath(__file__)))
SHADOW_DIR = os.path.join(VERIF, "sim", "qrlew-shadow")

def generate(repo="/repo", shadow_dir=None):
    global SHADOW_DIR
    if shadow_dir:
        SHADOW_DIR = shadow_dir
    src = open(os.path.join(repo, "Cargo.toml")).read()
    # replace the [lib] section
    out, skipping = [], False
    for line in src.splitlines():
        if re.match(r"^\s*\[lib\]\s*$", line):
            skipping = True
            continue
        if skipping and re.match(r"^\s*\[", line):
            skipping = False
        if not skipping:
            out.append(line)
    text = "\n".join(out) + "\n"
    text += "\n[lib]\npath = \"src/lib.rs\"\ncrate-type = [\"rlib\"]\n"
    text += "\n[target.'cfg(qrlew_verif)'.dependencies]\nshuttle = \"0.9.3\"\n"
    text += "\n[lints.rust]\nunexpected_cfgs = { level = \"allow\", check-cfg = ['cfg(qrlew_verif)'] }\n"
    link = os.path.join(SHADOW_DIR, "src")
    want = os.path.join(repo, "src")
    if not (os.path.islink(link) and os.readlink(link) == want):
        if os.path.lexists(link):
            os.remove(link)
        os.symlink(want, link)
    path = os.path.join(SHADOW_DIR, "Cargo.toml")
    old = open(path).read() if os.path.exists(path) else None
    if old != text:
        open(path, "w").write(text)
    return path

if __name__ == "__main__":
    print(generate())
