#!/bin/bash
# usage: intake.sh <seeded id> <worktree>   -- confirm a sub-agent's deliverable in its own worktree
id=$1; wt=$2; out=/verif/seeded/$id
mkdir -p $out; cp -r $wt/OUT/* $out/ 2>/dev/null
cd $wt || exit 2
log=$out/intake.log; : > $log
echo "== patch applies to a pristine HEAD?" >> $log
tmp=/tmp/intake-apply-$id; rm -rf $tmp; git -C /repo worktree add -q --detach $tmp HEAD && (git -C $tmp apply --check $out/patch.diff && echo "patch applies cleanly" >> $log || echo "PATCH DOES NOT APPLY" >> $log); git -C /repo worktree remove --force $tmp
echo "== stable tests with the change" >> $log
/verif/driver/run_stable_tests.sh $wt 2>&1 | tail -2 >> $log
cmd=$(grep -v '^#' $out/demo_cmd.txt | grep cargo | head -1)
echo "== demo with the change: $cmd" >> $log
(cd $wt && timeout 1500 bash -c "$cmd" > /tmp/intake-$id-with.txt 2>&1; echo "exit=$?" >> $log; grep -E "^test result|panicked|FAILED|failed" /tmp/intake-$id-with.txt | head -8 >> $log)
echo "== demo without the change" >> $log
git -C $wt apply -R $out/patch.diff && (cd $wt && timeout 1500 bash -c "$cmd" > /tmp/intake-$id-without.txt 2>&1; echo "exit=$?" >> $log; grep -E "^test result|panicked|FAILED|failed" /tmp/intake-$id-without.txt | head -8 >> $log)
git -C $wt apply $out/patch.diff
echo "== done" >> $log
