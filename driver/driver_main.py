"""Driver of the qrlew deterministic-simulation checks: build from /repo's working tree, fan out
seeded runs over worker processes, merge, minimise and re-replay failures, match the committed
known-findings file, write evidence. See DESIGN.md sections 2.5-2.8 and 5."""
import json, os, subprocess, sys, time, shutil, collections, glob

import shadow

VERIF = os.path.dirname(os.path.dirname(os.path.abspath(__file__)))
# The self-tests run the same driver against a scratch copy of the repository and of the
# simulator workspace (never /repo or /verif/sim themselves): these variables redirect it.
REPO = os.environ.get("VERIF_REPO", "/repo")
SIM = os.environ.get("VERIF_SIM", os.path.join(VERIF, "sim"))
WORK = os.environ.get("VERIF_WORKDIR", os.path.join(VERIF, "work"))
EVIDENCE_DIR = os.environ.get("VERIF_EVIDENCE_DIR", os.path.join(VERIF, "evidence"))
REPLAY_DIR = os.environ.get("VERIF_REPLAY_DIR", os.path.join(VERIF, "replay"))
SHIM = os.path.join(SIM, "shim", "detrand.so")
_TARGET = os.environ.get("VERIF_TARGET", os.path.join(VERIF, "target"))
TARGET_B = os.path.join(_TARGET, "b")
TARGET_A = os.path.join(_TARGET, "a")
BIN_B = os.path.join(TARGET_B, "debug", "sim-b")
BIN_A = os.path.join(TARGET_A, "debug", "sim-a")
NPROC = int(os.environ.get("VERIF_WORKERS", os.cpu_count() or 4))
DEFAULT_SEED = 20260925

SIM_B_PROPS = ["C01", "C02", "C03", "C04", "C09"]

# runs per tier (quick: on every change; thorough: as deep as built), wall budget in seconds
BUDGET = {
    "C16": {"quick": (2400, 110), "thorough": (200000, 1100)},
    "C09": {"quick": (2400, 100), "thorough": (120000, 1100)},
    "C01": {"quick": (1600, 110), "thorough": (60000, 1100)},
    "C02": {"quick": (1600, 110), "thorough": (60000, 1100)},
    "C03": {"quick": (1600, 110), "thorough": (60000, 1100)},
    "C04": {"quick": (1600, 110), "thorough": (60000, 1100)},
}

COMPONENTS = {
    "real": [
        "qrlew parser, Relation builder, rewriting-rule search, privacy-unit tracking, DP rewriting, DpEvent (shipped code, guard off)",
        "qrlew RelationToQueryTranslator rendering path (FromRelationVisitor) driven through its public trait",
        "SQLite (system libsqlite3 through rusqlite): query planning and execution, CTE materialisation, joins, aggregation",
    ],
    "stub": [
        "SIM_U1 / SIM_U2 / SIM_RANDOM: the engine's random source, owned by the simulator (draw plans)",
        "MD5 (128-bit digest, not MD5), GREATEST / LEAST (PostgreSQL semantics), STDDEV / VARIANCE / *_POP / *_SAMP aggregates",
        "column list of `(VALUES ..) AS x (x)` dropped; every CTE marked MATERIALIZED (PostgreSQL CTE semantics)",
        "getrandom(2) shim: hash seeds of the compiling process are a function of the scenario",
    ],
}


def log(msg):
    print(msg, flush=True)


def env_offline(extra=None):
    e = dict(os.environ)
    e["CARGO_NET_OFFLINE"] = "true"
    e.pop("RUSTFLAGS", None)
    if extra:
        e.update(extra)
    return e


def build_shim():
    src = os.path.join(SIM, "shim", "detrand.c")
    if (not os.path.exists(SHIM)) or os.path.getmtime(SHIM) < os.path.getmtime(src):
        r = subprocess.run(["gcc", "-O2", "-shared", "-fPIC", "-o", SHIM, src], capture_output=True, text=True)
        if r.returncode != 0:
            log("HARNESS-ERROR: cannot build getrandom shim\n" + r.stderr)
            return False
    return True


def cargo_build(pkg, target, rustflags=None):
    shadow.generate(REPO, os.path.join(SIM, "qrlew-shadow"))
    lock = os.path.join(SIM, "Cargo.lock")
    if not os.path.exists(lock):
        shutil.copy(os.path.join(REPO, "Cargo.lock"), lock)
    extra = {"CARGO_TARGET_DIR": target}
    if rustflags:
        extra["RUSTFLAGS"] = rustflags
    t0 = time.time()
    r = subprocess.run(["cargo", "build", "--offline", "-p", pkg], cwd=SIM, env=env_offline(extra), capture_output=True, text=True)
    if r.returncode != 0:
        errs = [l for l in r.stderr.splitlines() if l.startswith("error")]
        log("HARNESS-ERROR: build of %s against /repo's working tree failed (%d errors)" % (pkg, len(errs)))
        log("\n".join(r.stderr.splitlines()[-40:]))
        return False
    log("build %s ok (%.1fs)" % (pkg, time.time() - t0))
    return True


def build_b():
    return build_shim() and cargo_build("sim-b", TARGET_B)


def build_a():
    return build_shim() and cargo_build("sim-a", TARGET_A, "--cfg qrlew_verif")


def load_known():
    """known_findings.txt: `open: property=<id> class=<class> <text>` / `fixed: property=<id> <commit> class=<class> <text>`"""
    opens, fixed = [], []
    path = os.path.join(VERIF, "known_findings.txt")
    if os.path.exists(path):
        for line in open(path):
            line = line.strip()
            if not line or line.startswith("#"):
                continue
            kind, rest = line.split(":", 1)
            fields = rest.split()
            d = {"text": rest.strip()}
            for f in fields:
                if "=" in f and f.split("=", 1)[0] in ("property", "class"):
                    k, v = f.split("=", 1)
                    d[k] = v
            (opens if kind == "open" else fixed).append(d)
    return opens, fixed


def trim_scenario(sc, max_rows=6):
    sc = json.loads(json.dumps(sc))
    for key in ("tables", "synthetic"):
        for t in sc.get(key, []):
            n = len(t["rows"])
            if n > max_rows:
                t["rows"] = t["rows"][:max_rows]
                t["rows_total"] = n
    return sc


def _limit_memory():
    # an allocation the size of the machine must fail fast instead of thrashing (no swap here)
    import resource
    lim = 12 << 30
    resource.setrlimit(resource.RLIMIT_AS, (lim, lim))


def run_workers(binary, prop, seed, total, budget_s, outdir, extra_args=None):
    """Fan the run indices out over NPROC worker processes. A run that makes the process abort
    (allocation failure, stack overflow: not catchable in-process) is recorded as an aborted run
    and the worker is restarted behind it; anything else abnormal is a harness error."""
    os.makedirs(outdir, exist_ok=True)
    for f in glob.glob(os.path.join(outdir, "*.jsonl")):
        os.remove(f)
    env = env_offline({"LD_PRELOAD": SHIM})
    t_start = time.time()

    def launch(w, start_from, part):
        out = os.path.join(outdir, "w%02d.%d.jsonl" % (w, part))
        remaining = max(1.0, budget_s - (time.time() - t_start))
        cmd = [binary, "run", "--prop", prop, "--seed", str(seed), "--from", str(start_from), "--to", str(total),
               "--stride", str(NPROC), "--offset", "0", "--out", out, "--deadline-s", str(remaining)]
        if extra_args:
            cmd += extra_args
        return subprocess.Popen(cmd, env=env, stdout=subprocess.PIPE, stderr=subprocess.PIPE, text=True, preexec_fn=_limit_memory), out

    def read(path):
        recs, truncated = [], False
        if os.path.exists(path):
            for line in open(path):
                line = line.strip()
                if line:
                    try:
                        recs.append(json.loads(line))
                    except json.JSONDecodeError:
                        truncated = True
        return recs, truncated

    state = {w: {"from": w, "part": 0, "restarts": 0} for w in range(NPROC) if w < total}
    procs = {w: launch(w, st["from"], 0) for w, st in state.items()}
    records, bad, aborted = [], [], []
    while procs:
        for w in list(procs.keys()):
            p, out = procs[w]
            # workers stop taking new runs at the deadline; one that is still busy long after it is
            # stuck inside a single run (a changed compiler can emit a statement that never ends)
            hard = max(30.0, budget_s * 2 + 300 - (time.time() - t_start))
            timed_out = False
            try:
                so, se = p.communicate(timeout=hard)
            except subprocess.TimeoutExpired:
                p.kill()
                so, se = p.communicate()
                timed_out = True
            del procs[w]
            recs, _ = read(out)
            for r in recs:
                r["_proc_from"] = state[w]["from"]
                r["_stride"] = NPROC
            records.extend(recs)
            if p.returncode == 0:
                continue
            st = state[w]
            last = max([r["run"] for r in recs], default=st["from"] - NPROC)
            crashed = last + NPROC
            if timed_out:
                aborted.append({"run": crashed, "signal": "timeout", "stderr": "killed: no progress long after the deadline"})
                continue
            if p.returncode in (-6, -11, 134, 139) and crashed < total and st["restarts"] < 400:
                # the run after the last completed one took the process down
                aborted.append({"run": crashed, "signal": p.returncode, "stderr": "\n".join([l for l in se.splitlines() if not l.startswith("  ")][:3])})
                st["restarts"] += 1
                st["part"] += 1
                st["from"] = crashed + NPROC
                if st["from"] < total:
                    procs[w] = launch(w, st["from"], st["part"])
            else:
                bad.append((w, p.returncode, se[-2000:]))
    for a in aborted:
        kind = "process_timeout" if a["signal"] == "timeout" else "process_abort"
        records.append({"seed": seed, "run": a["run"], "property": prop, "verdict": {"Skip": kind}, "shape": None, "tags": [],
                        "stats": {"statements": 0, "draws": 0, "executions": 0, "faults": {}, "probes": {kind: 1}, "ops": 0, "events": 0, "interleaving": "", "queries": 0},
                        "digest": "", "ref_digest": "", "notes": [a["stderr"]], "scenario": None, "workload": None})
    records.sort(key=lambda r: r["run"])
    return records, bad


def run_blocks(binary, prop, seed, n, outdir, extra_args=None):
    """Runs 0..n again, but in contiguous blocks per worker process (stride 1): every run then has
    other predecessors in its process than under the strided assignment of run_workers."""
    os.makedirs(outdir, exist_ok=True)
    for f in glob.glob(os.path.join(outdir, "*.jsonl")):
        os.remove(f)
    env = env_offline({"LD_PRELOAD": SHIM})
    block = (n + NPROC - 1) // NPROC
    procs = []
    for w in range(NPROC):
        lo, hi = w * block, min(n, (w + 1) * block)
        if lo >= hi:
            continue
        out = os.path.join(outdir, "b%02d.jsonl" % w)
        cmd = [binary, "run", "--prop", prop, "--seed", str(seed), "--from", str(lo), "--to", str(hi), "--stride", "1", "--offset", "0", "--out", out, "--samples", "0"] + (extra_args or [])
        procs.append((lo, out, subprocess.Popen(cmd, env=env, stdout=subprocess.DEVNULL, stderr=subprocess.DEVNULL, preexec_fn=_limit_memory)))
    recs = {}
    for lo, out, p in procs:
        p.wait()
        if os.path.exists(out):
            for line in open(out):
                try:
                    r = json.loads(line)
                except json.JSONDecodeError:
                    continue
                r["_proc_from"] = lo
                r["_stride"] = 1
                recs[r["run"]] = r
    return recs


def replay_file(binary, path):
    try:
        doc = json.load(open(path))
    except Exception:
        doc = {}
    if "arrangements" in doc:
        # the quiescent reference of one run under two different process histories
        digs = []
        last = None
        for pf in doc["arrangements"]:
            rec = prefix_replay(binary, doc["property"], doc["seed"], doc["run"], pf["from"], pf["stride"], pf.get("extra_args"))
            if rec is None:
                return 2, None
            digs.append(rec.get("ref_digest"))
            last = rec
        if len(set(digs)) > 1:
            v = {"property": doc["property"], "invariant": doc["invariant"], "class": doc["class"],
                 "detail": "the quiescent reference table of run %d differs between two process histories: %s" % (doc["run"], digs), "witness": {"ref_digests": digs}}
            if not isinstance(last["verdict"], dict) or "Violations" not in last["verdict"]:
                last["verdict"] = {"Violations": []}
            last["verdict"]["Violations"].append(v)
            return 1, last
        return 0, last
    if "prefix" in doc:
        pf = doc["prefix"]
        rec = prefix_replay(binary, doc["property"], doc["seed"], doc["run"], pf["from"], pf["stride"], pf.get("extra_args"))
        if rec is None:
            return 2, None
        failed = isinstance(rec["verdict"], dict) and "Violations" in rec["verdict"]
        return (1 if failed else 0), rec
    env = env_offline({"LD_PRELOAD": SHIM})
    r = subprocess.run([binary, "replay", "--file", path], env=env, capture_output=True, text=True)
    rec = None
    try:
        rec = json.loads(r.stdout.strip().splitlines()[-1])
    except Exception:
        pass
    return r.returncode, rec


def prefix_replay(binary, prop, seed, run, proc_from, stride, extra_args=None):
    """Re-execute, in one fresh process, every run the worker process had executed before `run`
    and then `run` itself: reproduces failures that depend on state the library keeps across
    compilations in a process (exactly what C16 is about)."""
    out = os.path.join(WORK, "prefix-replay-%s-%d.jsonl" % (prop, run))
    os.makedirs(WORK, exist_ok=True)
    cmd = [binary, "run", "--prop", prop, "--seed", str(seed), "--from", str(proc_from), "--to", str(run + 1),
           "--stride", str(stride), "--offset", "0", "--out", out, "--samples", "0"] + (extra_args or [])
    subprocess.run(cmd, env=env_offline({"LD_PRELOAD": SHIM}), capture_output=True, text=True)
    rec = None
    if os.path.exists(out):
        for line in open(out):
            try:
                r = json.loads(line)
            except json.JSONDecodeError:
                continue
            if r["run"] == run:
                rec = r
        os.remove(out)
    return rec


def handle_violations(binary, prop, seed, records, opens, max_minimise=6, payload="scenario", extra_args=None):
    """Returns (violation_lines, known_lines, n_viol_runs, details)."""
    by_class = collections.OrderedDict()
    for r in records:
        v = r["verdict"]
        if isinstance(v, dict) and "Violations" in v:
            for x in v["Violations"]:
                by_class.setdefault((x["invariant"], x["class"]), []).append((r, x))
    os.makedirs(REPLAY_DIR, exist_ok=True)
    violation_lines, known_lines, details = [], [], []
    open_classes = {o.get("class"): o for o in opens if o.get("property") == prop}
    known_seen = collections.Counter()
    minimised = 0
    for (inv, cls), items in by_class.items():
        if cls in open_classes:
            known_seen[cls] += len(items)
            continue
        # an unlisted violation: write replay file, minimise, confirm, report (first of the class)
        r, x = items[0]
        tag = "".join(ch if ch.isalnum() else "_" for ch in inv)[:40]
        raw = os.path.join(REPLAY_DIR, "%s-%d-%d-%s.raw.json" % (prop, seed, r["run"], tag))
        doc = {"property": prop, "invariant": inv, "class": cls, "violation": x, payload: r[payload], "seed": seed, "run": r["run"]}
        if inv == "hash_seed_dependence":
            doc["hash_sweep"] = [0] + list(x["witness"].get("salts", []))
        if inv == "process_history_dependence":
            doc["arrangements"] = x.get("_arrangements", [])
            doc.pop(payload, None)
        json.dump(doc, open(raw, "w"), indent=1)
        final = os.path.join(REPLAY_DIR, "%s-%d-%d-%s.json" % (prop, seed, r["run"], tag))
        env = env_offline({"LD_PRELOAD": SHIM})
        ok_min = False
        if minimised < max_minimise and inv not in ("hash_seed_dependence", "process_history_dependence"):
            minimised += 1
            m = subprocess.run([binary, "minimise", "--file", raw, "--out", final], env=env, capture_output=True, text=True)
            ok_min = m.returncode == 0 and os.path.exists(final)
        if not ok_min:
            shutil.copy(raw, final)
        else:
            os.remove(raw)
        code, rec = replay_file(binary, final)
        same = False
        if code == 1 and rec is not None:
            vv = rec["verdict"].get("Violations", []) if isinstance(rec["verdict"], dict) else []
            same = any(y["invariant"] == inv and y["class"] == cls for y in vv)
        if not same and "_proc_from" in r:
            # not a function of the scenario alone: try with the history of the worker process
            rec2 = prefix_replay(binary, prop, seed, r["run"], r["_proc_from"], r["_stride"], extra_args)
            vv = rec2["verdict"].get("Violations", []) if (rec2 and isinstance(rec2["verdict"], dict)) else []
            if any(y["invariant"] == inv and y["class"] == cls for y in vv):
                doc = {"property": prop, "invariant": inv, "class": cls, "violation": x, "seed": seed, "run": r["run"],
                       "prefix": {"from": r["_proc_from"], "to": r["run"] + 1, "stride": r["_stride"], "extra_args": extra_args or []},
                       "note": "this failure does not reproduce from the scenario alone: it needs the earlier runs of the same process (state kept across compilations); the replay re-executes that history"}
                json.dump(doc, open(final, "w"), indent=1)
                same = True
                log("  (reproduced only together with the %d earlier runs of its worker process)" % ((r["run"] - r["_proc_from"]) // r["_stride"]))
        if not same:
            log("HARNESS-ERROR: failure of %s (%s) in run %d does not replay from %s" % (prop, inv, r["run"], final))
            details.append({"invariant": inv, "class": cls, "replay": final, "replays": False})
            violation_lines.append(None)
            continue
        log("violation: %s / %s: %s" % (inv, cls, x["detail"][:400]))
        log("  %d run(s) fail this invariant; first: run %d; minimised replay file re-executed and failed the same way" % (len(items), r["run"]))
        violation_lines.append("VIOLATION property=%s replay=%s" % (prop, final))
        details.append({"invariant": inv, "class": cls, "replay": final, "replays": True, "runs": len(items)})
    for cls, n in known_seen.items():
        known_lines.append("KNOWN-FINDING: property=%s class=%s (%d occurrence(s) this run) %s" % (prop, cls, n, open_classes[cls]["text"]))
    n_viol_runs = sum(1 for r in records if isinstance(r["verdict"], dict) and "Violations" in r["verdict"])
    return violation_lines, known_lines, n_viol_runs, details, dict(known_seen)


def merge_stats(records):
    faults, probes = collections.Counter(), collections.Counter()
    statements = draws = executions = 0
    for r in records:
        s = r["stats"]
        statements += s["statements"]
        draws += s["draws"]
        executions += s["executions"]
        for k, v in s["faults"].items():
            faults[k] += v
        for k, v in s["probes"].items():
            probes[k] += v
    return statements, draws, executions, dict(faults), dict(probes)


def check_sim_b(prop, tier, seed, level_rule):
    t0 = time.time()
    if not build_b():
        return 2
    total, budget_s = BUDGET[prop][tier]
    log("%s %s: seed=%d runs=%d workers=%d" % (prop, tier, seed, total, NPROC))
    outdir = os.path.join(WORK, prop)
    records, bad = run_workers(BIN_B, prop, seed, total, budget_s, outdir, ["--depth", "1"] if tier == "thorough" else None)
    if bad:
        for w, code, err in bad:
            log("HARNESS-ERROR: worker %s exited with %s: %s" % (w, code, err))
        return 2
    if not records:
        log("HARNESS-ERROR: no runs completed")
        return 2
    opens, fixed = load_known()
    vlines, klines, n_viol_runs, details, known_seen = handle_violations(BIN_B, prop, seed, records, opens, extra_args=["--depth", "1"] if tier == "thorough" else None)
    ok = sum(1 for r in records if r["verdict"] == "Ok")
    skips = collections.Counter(r["verdict"]["Skip"] for r in records if isinstance(r["verdict"], dict) and "Skip" in r["verdict"])
    shapes = set(r["shape"] for r in records if r.get("shape") and (r["verdict"] == "Ok" or (isinstance(r["verdict"], dict) and "Violations" in r["verdict"])))
    statements, draws, executions, faults, probes = merge_stats(records)
    wall = time.time() - t0
    samples = []
    for r in records:
        if r.get("scenario") and r["verdict"] == "Ok" and len(samples) < 3:
            samples.append({"run": r["run"], "verdict": "Ok", "shape": r["shape"], "scenario": trim_scenario(r["scenario"])})
    if not samples:
        samples.append({"run": records[0]["run"], "verdict": records[0]["verdict"], "tags": records[0]["tags"]})
    run_wall = max(wall, 1e-9)
    unlisted = sum(1 for l in vlines if l)
    evidence = {
        "property_id": prop,
        "tier": tier,
        "seed": seed,
        "level": "exploration",
        "coverage": {
            "evaluations": len(records),
            "distinct_nontrivial": len(shapes),
            "rule": level_rule,
            "samples": samples,
            "runs_compared": ok + n_viol_runs,
            "runs_skipped_by_reason": dict(skips),
            "runs_per_hour": int(len(records) / run_wall * 3600),
            "seeds": {"VERIF_SEED": seed, "run_indices": [0, max(r["run"] for r in records)], "runs_completed": len(records), "runs_planned": total},
            "logical_time": {"sql_statements_executed": statements, "engine_executions": executions, "random_draws_served": draws, "note": "no simulated wall-clock exists in this system; logical time is statements and draws"},
            "faults_fired": faults,
            "probes": probes,
            "known_findings_seen": known_seen,
            "violation_classes": details,
            "components": COMPONENTS,
            "workers": NPROC,
        },
        "assumptions": [
            "sampling, not enumeration: a clean batch is evidence, not proof",
            "engine model: SQLite with PostgreSQL CTE semantics (every CTE materialised) and six stubbed functions",
            "classical Gaussian calibration and basic composition, as the property states them",
        ],
        "wall_s": round(wall, 2),
        "violations": unlisted,
    }
    os.makedirs(EVIDENCE_DIR, exist_ok=True)
    json.dump(evidence, open(os.path.join(EVIDENCE_DIR, prop + ".json"), "w"), indent=1)
    log("%s: %d runs, %d compared (%d distinct shapes), skipped %s" % (prop, len(records), ok + n_viol_runs, len(shapes), dict(skips)))
    log("faults fired: %s" % faults)
    for l in klines:
        print(l, flush=True)
    harness_err = any(l is None for l in vlines)
    for l in vlines:
        if l:
            print(l, flush=True)
    if unlisted:
        return 1
    if harness_err:
        return 2
    if ok + n_viol_runs < 2 or len(shapes) < 2:
        log("HARNESS-ERROR: the workload produced fewer than 2 comparable runs; nothing was decided")
        return 2
    log("%s: held on everything explored (%.1fs)" % (prop, wall))
    return 0


RULES = {
    "C16": "one run = one (VERIF_SEED, run index): catalogue and instance, 6-11 queries (corpus of about 175 shapes incl. joins of every kind, USING/NATURAL, CTEs read once or twice, derived tables, set operations, DISTINCT, HAVING, CASE keys, ORDER BY/LIMIT/OFFSET, quoted identifiers, casts, scalar functions, predicates over compound operands, awkward literals, operator precedence, random(), CURRENT_TIMESTAMP / CURRENT_DATE / CURRENT_TIME) plus seeded aggregation queries, 1-4 caller threads with 3-12 operations each (parse, render twice through the default and once through each of six dialect translators, re-parse, DP / privacy-unit rewriting as background load, counter burns, unnamed builds, reset(), cold threads, caller abandonment), one shuttle schedule (random or PCT, seeded) and one hash seed. A quiescent single-threaded pass right after reset() gives the reference (relation, text, rendered SQL, schema) and decides the schedule-independent fixpoint sentence (re-parse succeeds, same schema, same multiset of operators / functions / literals / whole expression trees modulo what re-parsing provably adds, same rows on one seeded instance of the simulated engine; schema and structure also for the relation the DP compiler returns for the generated query); every Parse/Render/Reparse of the concurrent history is compared with it. A second family of runs replays histories single-threaded under other hash seeds and compares logs. Non-trivial = the history ran (every run). Distinct = distinct (thread count, scheduler, set of operation kinds, query-kind mix) tuples; distinct interleavings (hash of the global order of thread steps) are counted separately.",
    "C02": "one run = one (VERIF_SEED, run index): scenario mixing protected, public and synthetic tables, aggregation queries and plain projections (which must be refused or redirected). (a) the returned relation is executed under 15 forced schedules of the engine's noise draws on D and under 3 of them on D minus one privacy unit (up to 3 units); every output column that depends on the removed rows must depend on the noise schedule. (b) on the same compile, every derivation the public rule pipeline returns with an acceptable root label is walked: no Public/Published/Synthetic-labelled node may reach a protected table (not redirected to its twin) without crossing a DifferentiallyPrivate-labelled aggregation. Non-trivial = the compile ran to a verdict (accepted or refused). Distinct = distinct (privacy-unit kind, FROM shape, key shape, aggregate set, synthetic/plain, outcome class: data-dependent / noise-only / constant / refused).",
    "C04": "one run = one (VERIF_SEED, run index): grouped query with at least one key column that has no publicly declared value set, instance with singleton keys, units alone in more than Cu groups, one unit holding a key in many rows. The rewritten query is executed under forced schedules of the engine's random source: threshold noise zero (released => more than tau_required distinct holding units, counted by the harness's own ownership tables), threshold noise placing the effective threshold at 1.5 / 2.5 / 4.5, and - when some unit is the only holder of more than Cu keys - six capping-draw schedules (2 seeded, quantised ties, constant, increasing, decreasing) with every candidate key forced out (at most Cu of a lone unit's keys may appear); tau and sigma literals are compared with the values required by the reserved share. Non-trivial = compile accepted and key release present (or a surely private key released without it). Distinct = distinct (privacy-unit kind, key shape, cap exercised or idle, singleton keys present, something released, Cu class).",
    "C03": "one run = one (VERIF_SEED, run index): generated scenario as for C01. The applied mechanisms are read from the rewritten IR (sigma literal per noised column, clip constant traced through the scale-factor map; tau and sigma of the key release) and cross-checked through the engine seam (every Gaussian draw forced to +-c*sigma must move each un-clamped cell by exactly that); they are then matched injectively against the entries of the returned DpEvent and budgeted with the classical calibration at the best delta split; below every key-release threshold the query must cap a unit's contributions at the Cu the recorded (epsilon, delta) assumes. Non-trivial = compile accepted and at least one randomised mechanism in the rewriting. Distinct = distinct (privacy-unit kind, FROM shape, key shape, aggregate set, number of Gaussian / threshold mechanisms, epsilon above or below 1, history class).",
    "C01": "one run = one (VERIF_SEED, run index): generated catalogue, privacy unit, DpParameters, aggregation query, instance with data faults (heavy unit, spread unit, duplicate parent keys, orphans, NULLs, bounds, mis-declared sizes), counter offset, hash seed. The pre-noise relation of every noise map of the rewritten IR is executed on D and on D minus one privacy unit (up to 4 units per run: two heaviest + seeded picks) as coupled executions (threshold noise forced to release every candidate key, capping order forced monotone or tied so that other units keep their groups, row ids increasing). Non-trivial = compile accepted, a noise map found, at least one removed unit moved a pre-noise cell. Distinct = distinct (privacy-unit kind, FROM shape, key shape, aggregate set, having/outer/where, history class, saturated/moved, thresholded/fixed key set, data-fault set) tuples.",
    "C09": "one run = one (VERIF_SEED, run index): generated catalogue, privacy unit, DpParameters, aggregation query with public-valued keys or none (plain and DISTINCT aggregates of columns, of scalar and mathematical functions of them, of products / differences / ratios of two columns; WHERE with literals, NOT / BETWEEN / IN forms and comparisons between columns), in-range instance, counter offset and hash seed; DP rewriting executed with every Gaussian draw forced to 0*sigma and compared with the original query on the same instance (by key, or as a row multiset when output keys repeat); the multiplicity the clip constant allows must reach what the parameters grant on the actual row count unless the unit is unique in the data. Non-trivial = compile accepted, at least one noise map in the rewriting, clipping measured inactive (every scale factor == 1), both queries executed. Distinct = distinct (privacy-unit kind, FROM shape, key shape, aggregate set, having/outer/where, counter-history class, group-count class) tuples among those.",
}


def check_sim_a(tier, seed):
    prop = "C16"
    t0 = time.time()
    if not build_a():
        return 2
    total, budget_s = BUDGET[prop][tier]
    log("%s %s: seed=%d runs=%d workers=%d" % (prop, tier, seed, total, NPROC))
    outdir = os.path.join(WORK, prop)
    depth_args = ["--depth", "1"] if tier == "thorough" else []
    records, bad = run_workers(BIN_A, prop, seed, total, budget_s * 0.7, outdir, depth_args or None)
    if bad:
        for w, code, err in bad:
            log("HARNESS-ERROR: worker %s exited with %s: %s" % (w, code, err[-600:]))
        return 2
    if not records:
        log("HARNESS-ERROR: no runs completed")
        return 2
    # hash-seed sweep: single-threaded replays of the first histories under other hash seeds
    n_sweep = min(len(records), 96 if tier == "quick" else 4096)
    salts = [1, 2] if tier == "quick" else [1, 2, 3, 4]
    sweep = {}
    for salt in salts:
        recs, bad2 = run_workers(BIN_A, prop, seed, n_sweep, budget_s * 0.15, os.path.join(WORK, prop + "-sweep%d" % salt), ["--hash-salt", str(salt), "--single-thread", "--samples", "0"] + depth_args)
        if bad2:
            for w, code, err in bad2:
                log("HARNESS-ERROR: sweep worker %s exited with %s: %s" % (w, code, err[-600:]))
            return 2
        sweep[salt] = {r["run"]: r for r in recs}
    main_by_run = {r["run"]: r for r in records}
    # process-history sweep: the same first histories again, in contiguous blocks per process
    # (other predecessors than under the strided assignment); the quiescent reference tables
    # must not depend on what the process compiled before
    rearranged = run_blocks(BIN_A, prop, seed, n_sweep, os.path.join(WORK, prop + "-blocks"), depth_args or None)
    history_compared = 0
    for run, rb in sorted(rearranged.items()):
        ra = main_by_run.get(run)
        if ra is None or not ra.get("ref_digest") or not rb.get("ref_digest"):
            continue  # not run, or the process died in it (recorded as process_abort)
        history_compared += 1
        if ra["ref_digest"] != rb["ref_digest"]:
            v = {"property": prop, "invariant": "process_history_dependence", "class": "unclassified",
                 "detail": "the quiescent reference table of run %d (compiled right after reset()) differs between two process histories: after runs %d, %d, ... of a strided worker it is %s, after runs %d.. of a block worker it is %s" % (run, ra["_proc_from"], ra["_proc_from"] + ra["_stride"], ra["ref_digest"], rb["_proc_from"], rb["ref_digest"]),
                 "witness": {"run": run},
                 "_arrangements": [{"from": ra["_proc_from"], "stride": ra["_stride"], "extra_args": depth_args}, {"from": rb["_proc_from"], "stride": 1, "extra_args": depth_args}]}
            if ra["verdict"] == "Ok":
                ra["verdict"] = {"Violations": [v]}
            else:
                ra["verdict"]["Violations"].append(v)
    sweep_compared = 0
    for run in sorted(sweep[salts[0]].keys()):
        ds = set()
        refs = set([main_by_run[run]["ref_digest"]]) if run in main_by_run else set()
        for salt in salts:
            if run in sweep[salt]:
                ds.add(sweep[salt][run]["digest"])
                refs.add(sweep[salt][run]["ref_digest"])
        if "" in ds or "" in refs:
            continue  # the process died in this run under one of the seeds (recorded as process_abort)
        sweep_compared += 1
        if len(ds) > 1 or len(refs) > 1:
            # report through the ordinary path: attach a violation to the main record
            r = main_by_run.get(run) or sweep[salts[0]][run]
            if r.get("workload") is None:
                # regenerate with its workload kept
                rr, _ = run_workers(BIN_A, prop, seed, run + 1, 60, os.path.join(WORK, prop + "-one"), ["--samples", "1000000"] + depth_args)
                r = [x for x in rr if x["run"] == run][0]
                main_by_run[run] = r
                records = [x if x["run"] != run else r for x in records]
            v = {"property": prop, "invariant": "hash_seed_dependence", "class": "unclassified",
                 "detail": "the single-threaded history of run %d gives different Parse/Render logs or reference tables under different hash seeds (log digests %s, reference digests %s)" % (run, sorted(ds), sorted(refs)),
                 "witness": {"run": run, "salts": salts}}
            if r["verdict"] == "Ok":
                r["verdict"] = {"Violations": [v]}
            else:
                r["verdict"]["Violations"].append(v)
    opens, fixed = load_known()
    vlines, klines, n_viol_runs, details, known_seen = handle_violations(BIN_A, prop, seed, records, opens, payload="workload", extra_args=depth_args or None)
    ok = sum(1 for r in records if r["verdict"] == "Ok")
    shapes = set(r["shape"] for r in records if r.get("shape"))
    inter = set(r["stats"]["interleaving"] for r in records if r.get("shape") and r["shape"].split("|")[0] != "k1")
    faults, probes = collections.Counter(), collections.Counter()
    ops = events = 0
    for r in records:
        for k, v in r["stats"]["faults"].items():
            faults[k] += v
        for k, v in r["stats"]["probes"].items():
            probes[k] += v
        ops += r["stats"]["ops"]
        events += r["stats"]["events"]
    faults["hash_seed_sweep_replays"] = sweep_compared * len(salts)
    faults["process_history_rearrangements"] = history_compared
    wall = time.time() - t0
    samples = []
    for r in records:
        if r.get("workload") and r["verdict"] == "Ok" and len(samples) < 2:
            w = json.loads(json.dumps(r["workload"]))
            w["sc"] = trim_scenario(w["sc"], 3)
            samples.append({"run": r["run"], "verdict": "Ok", "shape": r["shape"], "interleaving": r["stats"]["interleaving"], "workload": w})
    if not samples:
        samples.append({"run": records[0]["run"], "shape": records[0]["shape"], "tags": records[0]["tags"]})
    unlisted = sum(1 for l in vlines if l)
    evidence = {
        "property_id": prop, "tier": tier, "seed": seed, "level": "exploration",
        "coverage": {
            "evaluations": len(records) + sweep_compared * len(salts),
            "distinct_nontrivial": len(shapes),
            "rule": RULES[prop],
            "samples": samples,
            "concurrent_histories": len(records),
            "distinct_interleavings_multi_thread": len(inter),
            "hash_seed_sweep": {"histories": sweep_compared, "hash_seeds_per_history": len(salts) + 1},
            "process_history_sweep": {"histories_recompiled_under_another_process_history": history_compared},
            "runs_per_hour": int(len(records) / max(wall, 1e-9) * 3600),
            "seeds": {"VERIF_SEED": seed, "run_indices": [0, max(r["run"] for r in records)], "runs_completed": len(records), "runs_planned": total},
            "logical_time": {"operations_executed": ops, "history_events": events, "note": "no simulated wall-clock exists in this system; logical time is operations and scheduler-ordered events"},
            "faults_fired": dict(faults),
            "probes": dict(probes),
            "known_findings_seen": known_seen,
            "violation_classes": details,
            "components": {
                "real": ["qrlew parser, Relation builders, visitors, namer (the shipped count()/reset()/name_from_content bodies), rendering, DP and privacy-unit rewriting as background load"],
                "stub": ["shuttle::sync::Mutex in place of std's for the name counter, shuttle::thread_local for the per-thread implementation tables, verif_point preemption / abandonment points (all behind --cfg qrlew_verif)", "getrandom(2) shim owning RandomState keys", "Sim-B's SQLite engine and translator seam for the re-parse semantics sub-check"],
            },
            "workers": NPROC,
        },
        "assumptions": [
            "sampling of schedules, histories and hash seeds: evidence, not proof",
            "interleavings are decided only at shuttle primitives and verif_points; address-derived nondeterminism (ASLR) is not owned",
        ],
        "wall_s": round(wall, 2),
        "violations": unlisted,
    }
    os.makedirs(EVIDENCE_DIR, exist_ok=True)
    json.dump(evidence, open(os.path.join(EVIDENCE_DIR, prop + ".json"), "w"), indent=1)
    log("%s: %d concurrent histories (%d distinct shapes, %d distinct multi-thread interleavings), %d hash-seed replays" % (prop, len(records), len(shapes), len(inter), sweep_compared * len(salts)))
    log("faults fired: %s" % dict(faults))
    log("probes: %s" % dict(probes))
    for l in klines:
        print(l, flush=True)
    harness_err = any(l is None for l in vlines)
    for l in vlines:
        if l:
            print(l, flush=True)
    if unlisted:
        return 1
    if harness_err:
        return 2
    if len(shapes) < 2:
        log("HARNESS-ERROR: fewer than 2 distinct histories; nothing was decided")
        return 2
    log("%s: held on everything explored (%.1fs)" % (prop, wall))
    return 0


def do_replay(prop, path):
    if prop == "C16":
        if not build_a():
            return 2
        code, rec = replay_file(BIN_A, path)
        if rec is None:
            log("HARNESS-ERROR: replay produced no record")
            return 2
        v = rec["verdict"]
        if isinstance(v, dict) and "Violations" in v:
            for x in v["Violations"]:
                log("replayed violation: %s / %s: %s" % (x["invariant"], x["class"], x["detail"][:500]))
            opens, _ = load_known()
            oc = set(o.get("class") for o in opens if o.get("property") == prop)
            if all(x["class"] in oc for x in v["Violations"]):
                for x in v["Violations"]:
                    print("KNOWN-FINDING: property=%s class=%s" % (prop, x["class"]), flush=True)
                return 0
            print("VIOLATION property=%s replay=%s" % (prop, path), flush=True)
            return 1
        log("replay: %s" % (v,))
        return 0
    if prop in SIM_B_PROPS:
        if not build_b():
            return 2
        code, rec = replay_file(BIN_B, path)
        if rec is None:
            log("HARNESS-ERROR: replay produced no record")
            return 2
        v = rec["verdict"]
        if isinstance(v, dict) and "Violations" in v:
            for x in v["Violations"]:
                log("replayed violation: %s / %s: %s" % (x["invariant"], x["class"], x["detail"][:500]))
            opens, _ = load_known()
            oc = set(o.get("class") for o in opens if o.get("property") == prop)
            if all(x["class"] in oc for x in v["Violations"]):
                for x in v["Violations"]:
                    print("KNOWN-FINDING: property=%s class=%s" % (prop, x["class"]), flush=True)
                return 0
            print("VIOLATION property=%s replay=%s" % (prop, path), flush=True)
            return 1
        log("replay: %s" % (v,))
        return 0
    log("unknown property for replay")
    return 2


def main(argv):
    if not argv:
        print(__doc__)
        return 2
    seed = int(os.environ.get("VERIF_SEED", DEFAULT_SEED))
    tier = os.environ.get("VERIF_TIER", "quick")
    args = list(argv)
    if "--tier" in args:
        i = args.index("--tier")
        tier = args[i + 1]
        del args[i:i + 2]
    replay = None
    if "--replay" in args:
        i = args.index("--replay")
        replay = args[i + 1]
        del args[i:i + 2]
    cmd = args[0]
    log("VERIF_SEED=%d tier=%s" % (seed, tier))
    if cmd == "setup":
        ok = build_b()
        if os.path.exists(os.path.join(SIM, "sim-a", "src", "main.rs")):
            ok = build_a() and ok
        return 0 if ok else 2
    if replay:
        return do_replay(cmd, replay)
    if cmd == "C16":
        return check_sim_a(tier, seed)
    if cmd in SIM_B_PROPS:
        if cmd not in RULES:
            log("check for %s not built yet" % cmd)
            return 2
        return check_sim_b(cmd, tier, seed, RULES[cmd])
    if cmd == "selftest":
        import selftest
        return selftest.main(args[1:], seed)
    log("unknown command %s" % cmd)
    return 2
