"""Proving the simulator before believing it (DESIGN 2.6).

  ./check selftest determinism [N]   every (seed, run) gives the same event-log digest whatever the
                                     worker count and the harness process's own hash seed
  ./check selftest mutants           the property-breaking patches under /verif/seeded/*/patch.diff
                                     (and /verif/mutants/*.diff) are each caught by the quick tier
                                     in a scratch copy, and the pristine copy stays silent
"""
import json, os, subprocess, sys, glob, shutil, time

import driver_main as D


def run_pass(binary, prop, seed, total, workers, harness_hash, outdir):
    os.makedirs(outdir, exist_ok=True)
    for f in glob.glob(os.path.join(outdir, "*.jsonl")):
        os.remove(f)
    procs = []
    env = D.env_offline({"LD_PRELOAD": D.SHIM, "VERIF_HASH_SEED": str(harness_hash)})
    for w in range(workers):
        out = os.path.join(outdir, "w%02d.jsonl" % w)
        cmd = [binary, "run", "--prop", prop, "--seed", str(seed), "--from", "0", "--to", str(total),
               "--stride", str(workers), "--offset", str(w), "--out", out, "--samples", "0"]
        procs.append(subprocess.Popen(cmd, env=env, stdout=subprocess.DEVNULL, stderr=subprocess.DEVNULL))
    for p in procs:
        p.wait()
        if p.returncode != 0:
            return None
    digests = {}
    for f in glob.glob(os.path.join(outdir, "*.jsonl")):
        for line in open(f):
            r = json.loads(line)
            digests[r["run"]] = (r["digest"], json.dumps(r["verdict"], sort_keys=True)[:200])
    return digests


def determinism(args, seed):
    n = int(args[0]) if args else 400
    if not (D.build_b() and D.build_a()):
        return 2
    # the hash-seed seam itself: same seed => same iteration order, other seed => another order
    def probe(hs, preload=True):
        env = D.env_offline({"VERIF_HASH_SEED": str(hs)})
        if preload:
            env["LD_PRELOAD"] = D.SHIM
        return subprocess.run([D.BIN_B, "hashprobe"], env=env, capture_output=True, text=True).stdout.strip()
    p1, p1b, p2 = probe(7), probe(7), probe(8)
    if not (p1 == p1b and p1 != p2 and p1):
        D.log("HARNESS-ERROR: the getrandom shim does not own the hash seeds (%r, %r, %r)" % (p1, p1b, p2))
        return 2
    D.log("hash-seed seam: seed 7 twice -> identical iteration order, seed 8 -> different order")
    bad = 0
    total_compared = 0
    for prop, binary in [("C01", D.BIN_B), ("C02", D.BIN_B), ("C03", D.BIN_B), ("C04", D.BIN_B), ("C09", D.BIN_B), ("C16", D.BIN_A)]:
        t0 = time.time()
        base = os.path.join(D.WORK, "det-" + prop)
        a = run_pass(binary, prop, seed, n, 16, 111, base + "-a")
        b = run_pass(binary, prop, seed, n, 5, 222, base + "-b")
        c = run_pass(binary, prop, seed, min(n, 48), 1, 333, base + "-c")
        if a is None or b is None or c is None:
            D.log("HARNESS-ERROR: a worker failed in the determinism self-test of %s" % prop)
            return 2
        # the same run three times in a row in one process (what a minimiser does)
        rep_dir = base + "-rep"
        os.makedirs(rep_dir, exist_ok=True)
        rep_out = os.path.join(rep_dir, "rep.jsonl")
        subprocess.run([binary, "run", "--prop", prop, "--seed", str(seed), "--from", "0", "--to", "24", "--repeat", "3", "--out", rep_out, "--samples", "0"],
                       env=D.env_offline({"LD_PRELOAD": D.SHIM}), stdout=subprocess.DEVNULL, stderr=subprocess.DEVNULL)
        reps = {}
        for line in open(rep_out):
            r = json.loads(line)
            reps.setdefault(r["run"], set()).add(r["digest"])
        rep_bad = [r for r, ds in reps.items() if len(ds) != 1 or (r in a and a[r][0] not in ds)]
        diffs = [r for r in a if r in b and a[r] != b[r]] + [r for r in c if r in a and a[r] != c[r]] + rep_bad
        total_compared += len(a) + len(c)
        D.log("determinism %s: %d runs x (16 workers, 5 workers, other harness hash seed) + %d runs x 1 worker: %d divergent (%.1fs)" % (prop, len(a), len(c), len(diffs), time.time() - t0))
        for r in diffs[:5]:
            D.log("  run %d: %s vs %s / %s" % (r, a.get(r), b.get(r), c.get(r)))
        bad += len(diffs)
    if bad:
        D.log("DETERMINISM-FAILURE: %d divergent runs" % bad)
        return 1
    D.log("determinism: %d run pairs compared, all event logs identical" % total_compared)
    return 0


def mutants(args, seed):
    """Each patch is applied to a scratch copy of /repo (outside /repo and /verif), the quick
    checks of the property it targets are run against that copy, and the copy is removed."""
    patches = []
    for d in sorted(glob.glob(os.path.join(D.VERIF, "seeded", "*"))):
        meta = os.path.join(d, "meta.json")
        p = os.path.join(d, "patch.diff")
        if os.path.exists(meta) and os.path.exists(p):
            m = json.load(open(meta))
            patches.append((os.path.basename(d), p, m.get("property"), m.get("expected_detected_by", [m.get("property")])))
    for p in sorted(glob.glob(os.path.join(D.VERIF, "mutants", "*.diff"))):
        name = os.path.basename(p)[:-5]
        prop = name.split("-")[0]
        patches.append((name, p, prop, [prop]))
    if args:
        patches = [x for x in patches if any(a in x[0] for a in args)]
    # per-invocation scratch paths: two self-tests at once must not remove each other's copies
    tag = "verif-mutant-%d" % os.getpid()
    scratch = "/tmp/%s-repo" % tag
    sim_copy = "/tmp/%s-sim" % tag
    target = "/tmp/%s-target" % tag
    work = "/tmp/%s-work" % tag
    # leftovers of self-tests whose process is gone
    for d in glob.glob("/tmp/verif-mutant-*"):
        m = os.path.basename(d).split("-")
        pid = m[2] if len(m) > 3 and m[2].isdigit() else None
        if pid is None or not os.path.exists("/proc/%s" % pid):
            subprocess.run(["git", "-C", "/repo", "worktree", "remove", "--force", d], capture_output=True)
            shutil.rmtree(d, ignore_errors=True)
    subprocess.run(["git", "-C", "/repo", "worktree", "prune"], capture_output=True)
    for d in (scratch, sim_copy, work):
        if os.path.exists(d):
            subprocess.run(["git", "-C", "/repo", "worktree", "remove", "--force", d], capture_output=True)
            shutil.rmtree(d, ignore_errors=True)
    shutil.copytree(D.SIM, sim_copy, symlinks=True, ignore=shutil.ignore_patterns("target"))
    results = []
    env = dict(os.environ)
    env.update({"VERIF_REPO": scratch, "VERIF_SIM": sim_copy, "VERIF_TARGET": target, "VERIF_WORKDIR": work,
                "VERIF_EVIDENCE_DIR": os.path.join(work, "evidence"), "VERIF_REPLAY_DIR": os.path.join(work, "replay")})
    check = os.path.join(D.VERIF, "check")
    try:
        # the pristine copy must stay silent
        subprocess.run(["git", "-C", "/repo", "worktree", "add", "-q", "--detach", scratch, "HEAD"], check=True)
        all_dets = sorted(set(d for _, _, _, dets in patches for d in dets))
        # a check that alarms on the pristine copy proves nothing about a patch
        pristine_bad = set()
        for det in all_dets:
            rr = subprocess.run([check, det, "--tier", "quick"], env=env, capture_output=True, text=True)
            D.log("pristine copy, %s: exit %d" % (det, rr.returncode))
            if rr.returncode != 0:
                D.log(rr.stdout[-1500:])
                results.append(("pristine-" + det, "MISSED"))
                pristine_bad.add(det)
        for name, patch, prop, detectors in patches:
            subprocess.run(["git", "-C", scratch, "checkout", "-q", "--", "."], check=True)
            subprocess.run(["git", "-C", scratch, "clean", "-fdq"], check=True)
            r = subprocess.run(["git", "-C", scratch, "apply", patch], capture_output=True, text=True)
            if r.returncode != 0:
                D.log("mutant %s: patch does not apply: %s" % (name, r.stderr.strip()[:200]))
                results.append((name, "does-not-apply"))
                continue
            caught_by = []
            for det in detectors:
                if det in pristine_bad:
                    continue
                rr = subprocess.run([check, det, "--tier", "quick"], env=env, capture_output=True, text=True)
                if rr.returncode == 1 and "VIOLATION property=%s" % det in rr.stdout:
                    caught_by.append(det)
                elif rr.returncode == 2:
                    D.log("mutant %s: check %s reported a harness error:\n%s" % (name, det, rr.stdout[-800:]))
            results.append((name, ",".join(caught_by) if caught_by else "MISSED"))
            D.log("mutant %s (targets %s): %s" % (name, prop, results[-1][1]))
    finally:
        subprocess.run(["git", "-C", "/repo", "worktree", "remove", "--force", scratch], capture_output=True)
        for d in (sim_copy, target, work):
            shutil.rmtree(d, ignore_errors=True)
    missed = [n for n, r in results if r == "MISSED"]
    D.log("mutants: %d run, %d caught, missed: %s" % (len(results), len([1 for _, r in results if r not in ("MISSED", "does-not-apply")]), missed))
    return 0 if not missed else 1


def main(args, seed):
    if not args:
        print(__doc__)
        return 2
    if args[0] == "determinism":
        return determinism(args[1:], seed)
    if args[0] == "mutants":
        return mutants(args[1:], seed)
    print(__doc__)
    return 2
