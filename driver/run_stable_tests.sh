#!/bin/bash
# usage: /tmp/run_stable_tests.sh <worktree dir>
# Runs the repository's 403 stable tests (the ones that pass offline) by exact name. Exit 0 iff all pass.
set -u
cd "$1" || exit 2
names=$(python3 -c "
import json
b=json.load(open('/root/.vp/BASELINE.json'))
print(' '.join(n.split('::',1)[1] for n in b['stable_pass']))")
unset RUSTFLAGS
CARGO_NET_OFFLINE=true cargo test --offline --lib -- --exact $names 2>&1 | tail -n 15 | tee "$1/.stable_tail.txt"
grep -q "test result: ok. 403 passed" "$1/.stable_tail.txt"
