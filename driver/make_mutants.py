#!/usr/bin/env python3
"""Builds /verif/mutants/<prop>-<name>.diff: the hand-written property-breaking patches of DESIGN
section 3 ("sensitivity patches"), each a small string replacement, kept only if the crate still
compiles and the 403 stable tests still pass with it. Works in a scratch worktree under /tmp,
removed afterwards. Usage: make_mutants.py [name-filter]

The *-revert-fix-*.diff files next to them are not made here: each is the reverse of one "fix:" commit
of /repo (`git -C /repo diff <fix> <fix>^`), kept so that `./check selftest mutants` shows the check
reports the repaired defect again if it ever returns."""
import os, subprocess, sys, json

SCRATCH = "/tmp/verif-mkmut"
OUT = os.path.join(os.path.dirname(os.path.dirname(os.path.abspath(__file__))), "mutants")

# (name, file, old, new)
M = [
    # ---------------- C01
    ("C01-scale-factor-one", "src/relation/rewriting.rs",
     "Expr::divide(expr.clone(), Expr::val(value_clipping)),\n                        ),\n                    )",
     "Expr::divide(expr.clone(), Expr::val(value_clipping * 1e9)),\n                        ),\n                    )"),
    ("C01-noise-bound-halved", "src/differential_privacy/aggregates.rs",
     "            .map(|(s, _, f)| (*s, *f))\n            .collect::<Vec<_>>();\n        let (dp_clipped_relation, dp_event)",
     "            .map(|(s, _, f)| (*s, *f / 2.))\n            .collect::<Vec<_>>();\n        let (dp_clipped_relation, dp_event)"),
    ("C01-norm-per-group", "src/relation/rewriting.rs",
     "        .sums_by_group(\n            &vec![entities],\n            &values.iter().cloned().zip(names).collect::<Vec<_>>(),\n        )\n        .map_fields(|field_name, expr| {\n            if values.contains(&field_name) {\n                Expr::sqrt(expr)",
     "        .sums_by_group(\n            &entities_groups,\n            &values.iter().cloned().zip(names).collect::<Vec<_>>(),\n        )\n        .map_fields(|field_name, expr| {\n            if values.contains(&field_name) {\n                Expr::sqrt(expr)"),
    # ---------------- C02
    ("C02-reduce-pup-published", "src/rewriting/rewriting_rule.rs",
     "        if self.strategy == Strategy::Hard {\n            rewriting_rules.push(RewritingRule::new(\n                vec![Property::PrivacyUnitPreserving],\n                Property::PrivacyUnitPreserving,\n                Parameters::PrivacyUnit(self.privacy_unit.clone()),\n            ))\n        }\n\n        // We can compile into DP",
     "        if self.strategy == Strategy::Hard {\n            rewriting_rules.push(RewritingRule::new(\n                vec![Property::PrivacyUnitPreserving],\n                Property::PrivacyUnitPreserving,\n                Parameters::PrivacyUnit(self.privacy_unit.clone()),\n            ));\n            rewriting_rules.push(RewritingRule::new(\n                vec![Property::PrivacyUnitPreserving],\n                Property::Published,\n                Parameters::None,\n            ))\n        }\n\n        // We can compile into DP"),
    ("C02-accept-pup-root", "src/rewriting/mod.rs",
     "                Property::Public\n                | Property::Published\n                | Property::DifferentiallyPrivate\n                | Property::SyntheticData => {",
     "                Property::Public\n                | Property::Published\n                | Property::PrivacyUnitPreserving\n                | Property::DifferentiallyPrivate\n                | Property::SyntheticData => {"),
    ("C02-noise-built-input-used", "src/differential_privacy/aggregates.rs",
     "            (self.add_clipped_gaussian_noise(&gaussian_noises), dp_event)",
     "            let _noised = self.clone().add_clipped_gaussian_noise(&gaussian_noises);\n            (if gaussian_noises.len() > 2 { self } else { _noised }, dp_event)"),
    # ---------------- C03
    ("C03-compose-drops-right", "src/differential_privacy/dp_event.rs",
     "                (DpEvent::Composed { events: v }, other) => (v, vec![other]),",
     "                (DpEvent::Composed { events: v }, _other) => (v, vec![]),"),
    ("C03-join-keeps-left-event", "src/rewriting/rewriting_rule.rs",
     "                _ => Relation::join()\n                    .with(join.clone())\n                    .left(relation_left)\n                    .right(relation_right)\n                    .build(),\n            },\n        );\n        (relation, dp_event_left.compose(dp_event_right)).into()",
     "                _ => Relation::join()\n                    .with(join.clone())\n                    .left(relation_left)\n                    .right(relation_right)\n                    .build(),\n            },\n        );\n        let _ = dp_event_right;\n        (relation, dp_event_left).into()"),
    ("C03-split-not-on-delta", "src/differential_privacy/aggregates.rs",
     "            self.delta / (cmp::max(n, 1) as f64),\n            self.size,",
     "            self.delta,\n            self.size,"),
    ("C03-threshold-recorded-small", "src/differential_privacy/group_by.rs",
     "            DpEvent::epsilon_delta(epsilon, delta),\n        ))",
     "            DpEvent::epsilon_delta(epsilon / 2., delta),\n        ))"),
    ("C03-epsilon-delta-noop", "src/differential_privacy/dp_event.rs",
     "            DpEvent::EpsilonDelta { epsilon, delta } => epsilon == &0. && delta == &0.,",
     "            DpEvent::EpsilonDelta { epsilon, delta } => epsilon == &0. || delta < &1e-6,"),
    ("C03-sigma-from-unsplit-epsilon", "src/differential_privacy/aggregates.rs",
     "                            epsilon / number_of_agg,\n                            delta / number_of_agg,",
     "                            epsilon,\n                            delta / number_of_agg,"),
    # ---------------- C04
    ("C04-cap-join-without-unit", "src/relation/rewriting.rs",
     "            .on(Expr::eq(\n                Expr::qcol(Join::left_name(), column),\n                Expr::qcol(Join::right_name(), column),\n            ))\n            .and(Expr::lt_eq(",
     "            .on(Expr::val(true))\n            .and(Expr::lt_eq("),
    ("C04-tau-without-one", "src/differential_privacy/dp_event.rs",
     "    1. + scale * dist.inverse_cdf((1. - delta).powf(1. / max_privacy_unit_groups))",
     "    scale * dist.inverse_cdf((1. - delta).powf(1. / max_privacy_unit_groups)) - 1."),
    ("C04-sigma-tau-without-sqrt-cu", "src/differential_privacy/group_by.rs",
     "            dp_event::gaussian_noise(epsilon, delta, (max_privacy_unit_groups as f64).sqrt()),",
     "            dp_event::gaussian_noise(epsilon, delta, 1.0),"),
    ("C04-threshold-on-row-count", "src/differential_privacy/group_by.rs",
     "        let red = Relation::from(self.clone()).unique(&columns_and_pu);\n\n        let rel_with_limited_pu_contributions =\n            red.limit_col_contributions(self.privacy_unit(), max_privacy_unit_groups);",
     "        let red = Relation::from(self.clone()).unique(&columns_and_pu);\n\n        let _rel_with_limited_pu_contributions =\n            red.limit_col_contributions(self.privacy_unit(), max_privacy_unit_groups);\n        let rel_with_limited_pu_contributions = Relation::from(self.clone());"),
    # ---------------- C09
    ("C09-one-not-zeroed-for-nulls", "src/differential_privacy/aggregates.rs",
     "                    aggregate::Aggregate::Mean => {\n                        input_b = input_b\n                            .with((col_name.as_str(), Expr::col(col_name.as_str())))\n                            .with((\n                                one_col.as_str(),\n                                Expr::case(\n                                    Expr::is_null(Expr::col(col_name.as_str())),\n                                    Expr::val(0.),\n                                    Expr::val(1.),\n                                ),",
     "                    aggregate::Aggregate::Mean => {\n                        input_b = input_b\n                            .with((col_name.as_str(), Expr::col(col_name.as_str())))\n                            .with((\n                                one_col.as_str(),\n                                Expr::case(\n                                    Expr::is_null(Expr::col(col_name.as_str())),\n                                    Expr::val(1.),\n                                    Expr::val(1.),\n                                ),"),
    ("C09-public-keys-inner-join", "src/differential_privacy/group_by.rs",
     "            .left_outer(Expr::val(true))\n            .on_iter(on)",
     "            .inner(Expr::val(true))\n            .on_iter(on)"),
    # ---------------- C16
    ("C16-name-hash-randomstate", "src/namer.rs",
     "    let mut hasher = DefaultHasher::new();",
     "    let mut hasher = std::hash::BuildHasher::build_hasher(&std::collections::hash_map::RandomState::new());\n    let _ = DefaultHasher::new();"),
    ("C16-render-drops-parens-additive-right", "src/dialect_translation/mod.rs",
     "fn binary_op_builder(left: ast::Expr, op: ast::BinaryOperator, right: ast::Expr) -> ast::Expr {\n    ast::Expr::BinaryOp {\n        left: Box::new(ast::Expr::Nested(Box::new(left))),\n        op,\n        right: Box::new(ast::Expr::Nested(Box::new(right))),\n    }\n}",
     "fn binary_op_builder(left: ast::Expr, op: ast::BinaryOperator, right: ast::Expr) -> ast::Expr {\n    // additive chains need no parentheses\n    let additive = |o: &ast::BinaryOperator| matches!(o, ast::BinaryOperator::Plus | ast::BinaryOperator::Minus);\n    let flat = additive(&op) && matches!(&right, ast::Expr::BinaryOp { op: o, .. } if additive(o));\n    ast::Expr::BinaryOp {\n        left: Box::new(ast::Expr::Nested(Box::new(left))),\n        op,\n        right: Box::new(if flat { right } else { ast::Expr::Nested(Box::new(right)) }),\n    }\n}"),
    ("C16-render-order-by-keys-reversed", "src/relation/sql.rs",
     "                    map.order_by\n                        .iter()\n                        .map(|OrderBy { expr, asc }| ast::OrderByExpr {",
     "                    map.order_by\n                        .iter()\n                        .rev()\n                        .map(|OrderBy { expr, asc }| ast::OrderByExpr {"),
    ("C16-join-names-from-counter", "src/relation/builder.rs",
     "            .unwrap_or(namer::name_from_content(JOIN, &self));",
     "            .unwrap_or(namer::new_name(JOIN));"),
]


def sh(cmd, **kw):
    return subprocess.run(cmd, shell=True, capture_output=True, text=True, **kw)


def main():
    flt = sys.argv[1] if len(sys.argv) > 1 else ""
    os.makedirs(OUT, exist_ok=True)
    sh("git -C /repo worktree remove --force %s; rm -rf %s" % (SCRATCH, SCRATCH))
    r = sh("git -C /repo worktree add -q --detach %s HEAD" % SCRATCH)
    assert r.returncode == 0, r.stderr
    report = {}
    if flt and os.path.exists(os.path.join(OUT, "REPORT.json")):
        report = json.load(open(os.path.join(OUT, "REPORT.json")))
    try:
        for name, path, old, new in M:
            if flt and flt not in name:
                continue
            sh("git -C %s checkout -q -- ." % SCRATCH)
            f = os.path.join(SCRATCH, path)
            s = open(f).read()
            if s.count(old) != 1:
                report[name] = "pattern found %d times" % s.count(old)
                print(name, report[name], flush=True)
                continue
            open(f, "w").write(s.replace(old, new))
            t = sh("/verif/driver/run_stable_tests.sh %s" % SCRATCH)
            if t.returncode != 0:
                report[name] = "existing tests fail or no build: " + t.stdout[-300:].replace("\n", " | ")
                print(name, report[name], flush=True)
                continue
            d = sh("git -C %s diff" % SCRATCH).stdout
            open(os.path.join(OUT, name + ".diff"), "w").write(d)
            report[name] = "ok"
            print(name, "ok", flush=True)
    finally:
        sh("git -C /repo worktree remove --force %s; rm -rf %s" % (SCRATCH, SCRATCH))
    json.dump(report, open(os.path.join(OUT, "REPORT.json"), "w"), indent=1)


if __name__ == "__main__":
    main()
