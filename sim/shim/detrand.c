/* Deterministic getrandom(2) for the simulators (DESIGN 2.9).
 * std's RandomState takes its per-thread keys from getrandom(); std resolves it through a weak
 * symbol, so LD_PRELOADing this object makes every hash-map key stream a function of the
 * environment variable VERIF_HASH_SEED (re-read on every call, so that the harness can set it
 * per run before it starts the run's thread). Without the variable the real syscall is used. */
#define _GNU_SOURCE
#include <stdint.h>
#include <stdlib.h>
#include <string.h>
#include <sys/types.h>
#include <sys/syscall.h>
#include <unistd.h>

static uint64_t last_seed = 0, last_epoch = 0, counter = 0;
static int have_last = 0;

static uint64_t mix(uint64_t z) {
    z = (z ^ (z >> 30)) * 0xbf58476d1ce4e5b9ULL;
    z = (z ^ (z >> 27)) * 0x94d049bb133111ebULL;
    return z ^ (z >> 31);
}

ssize_t getrandom(void *buf, size_t buflen, unsigned int flags) {
    const char *s = getenv("VERIF_HASH_SEED");
    if (!s) return syscall(SYS_getrandom, buf, buflen, flags);
    uint64_t seed = strtoull(s, 0, 10);
    /* VERIF_HASH_EPOCH only says "a new run starts": the key stream restarts, so that the keys of a
     * run depend on its seed alone and not on how many runs the process executed before
     * (a minimiser process replays one seed many times). Its value never enters the keys. */
    const char *e = getenv("VERIF_HASH_EPOCH");
    uint64_t epoch = e ? strtoull(e, 0, 10) : 0;
    if (!have_last || seed != last_seed || epoch != last_epoch) { last_seed = seed; last_epoch = epoch; counter = 0; have_last = 1; }
    unsigned char *p = buf;
    size_t i = 0;
    while (i < buflen) {
        uint64_t v = mix(mix(seed + 0x9e3779b97f4a7c15ULL) ^ mix(++counter));
        size_t n = buflen - i < 8 ? buflen - i : 8;
        memcpy(p + i, &v, n);
        i += n;
    }
    return (ssize_t)buflen;
}
