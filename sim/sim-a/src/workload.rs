//! Workload of one Sim-A run: catalogue + instance (from the shared generator, full-catalogue
//! profile), a handful of queries from the corpus and the seeded aggregation grammar, per-thread
//! operation lists, and the scheduler choice. All drawn from named sub-streams of (seed, run).
use crate::RunRecord;
use serde::{Deserialize, Serialize};
use simcommon::{gen, scenario::Scenario, Rng};

#[derive(Serialize, Deserialize, Clone, Debug, PartialEq)]
pub enum Op {
    Parse(usize),
    /// Parse against the second catalogue (same table names, other column types / sizes).
    ParseAlt(usize),
    Render(usize),
    Reparse(usize),
    DpRewrite(usize),
    PupRewrite(usize),
    Burn(String, u64),
    BuildUnnamed,
    Reset,
    Spawn(Box<Op>),
    Abandon(usize, u64),
    /// Name `n` synthetic contents `(start + i * stride) mod NAME_PROBES` through
    /// `namer::name_from_content`: a name must be a function of the content alone, whatever was
    /// named before in the process (enough contents for two of them to share a 4-symbol name).
    NameBurst(u64, u32, u64),
}

pub const NAME_PROBES: u64 = 4096;

impl Op {
    pub fn kind(&self) -> &'static str {
        match self {
            Op::Parse(_) => "parse",
            Op::ParseAlt(_) => "parse_alt",
            Op::Render(_) => "render",
            Op::Reparse(_) => "reparse",
            Op::DpRewrite(_) => "dp",
            Op::PupRewrite(_) => "pup",
            Op::Burn(_, _) => "burn",
            Op::BuildUnnamed => "unnamed",
            Op::Reset => "reset",
            Op::Spawn(_) => "spawn",
            Op::Abandon(_, _) => "abandon",
            Op::NameBurst(_, _, _) => "name_burst",
        }
    }
}

#[derive(Serialize, Deserialize, Clone, Debug, PartialEq)]
pub enum Sched {
    Random(u64),
    Pct(u64, usize),
}

#[derive(Serialize, Deserialize, Clone, Debug)]
pub struct Workload {
    pub seed: u64,
    pub run: u64,
    pub sc: Scenario,
    /// A second catalogue with the same table names and other column types, ranges and sizes
    /// (an application reloading its schema): compiles against it alternate with the first.
    #[serde(default)]
    pub sc_alt: Option<Scenario>,
    pub queries: Vec<String>,
    pub threads: Vec<Vec<Op>>,
    pub sched: Sched,
}

/// Corpus over the full catalogue: users(id, age, city, score, vip, zip), orders(id, user_id,
/// amount, qty, status, note, disc), items(order_id, price, n, kind), regions(city, factor, zone).
pub const CORPUS: &[&str] = &[
    "SELECT * FROM users",
    "SELECT id, age + 1 AS a1, upper(city) AS c FROM users WHERE age > 30",
    "SELECT u.city, o.amount FROM users AS u JOIN orders AS o ON u.id = o.user_id",
    "SELECT u.city, count(*) AS c, sum(o.amount) AS s FROM users AS u JOIN orders AS o ON u.id = o.user_id GROUP BY u.city",
    "WITH t AS (SELECT user_id, sum(amount) AS s FROM orders GROUP BY user_id) SELECT u.city, avg(t.s) AS m FROM users AS u JOIN t ON u.id = t.user_id GROUP BY u.city",
    "SELECT city FROM users UNION SELECT status FROM orders",
    "SELECT DISTINCT city, vip FROM users",
    "SELECT city, count(*) AS c FROM users GROUP BY city HAVING count(*) > 1",
    "SELECT CASE WHEN age > 50 THEN 'old' ELSE 'young' END AS g, count(id) AS c FROM users GROUP BY CASE WHEN age > 50 THEN 'old' ELSE 'young' END",
    "SELECT id, age FROM users ORDER BY age DESC LIMIT 5",
    "SELECT id, amount FROM orders ORDER BY amount LIMIT 3 OFFSET 2",
    "SELECT * FROM orders LEFT JOIN users ON orders.user_id = users.id",
    "SELECT * FROM users NATURAL JOIN regions",
    "SELECT * FROM users JOIN regions USING (city)",
    "SELECT \"id\" AS \"my id\", \"city\" AS \"select\" FROM users",
    "SELECT cast(age AS float) AS f, coalesce(score, 0) AS s, age % 3 AS m FROM users",
    "SELECT a.city, b.zone FROM users AS a JOIN regions AS b ON a.city = b.city WHERE a.age > 3",
    "SELECT sub.c * 2 AS d FROM (SELECT count(*) AS c FROM orders) AS sub",
    "SELECT city, random() AS r FROM users",
    "SELECT count(*) AS c FROM users WHERE random() < 0.5",
    "SELECT user_id, sum(amount) AS s, avg(amount) AS a, count(DISTINCT status) AS d FROM orders GROUP BY user_id",
    "SELECT status, variance(amount) AS v, stddev(amount) AS sd FROM orders GROUP BY status",
    "SELECT * FROM users CROSS JOIN regions",
    "SELECT city FROM users EXCEPT SELECT city FROM regions",
    "SELECT city FROM users INTERSECT SELECT city FROM regions",
    "SELECT age AS x, age * 2 AS y FROM users WHERE city IN ('NY', 'LA') AND NOT vip",
    "SELECT lower(city) AS lc, char_length(city) AS n FROM users",
    "SELECT ln(1 + abs(score)) AS l, exp(score / 10) AS e, sqrt(abs(score)) AS r FROM users",
    "SELECT o.status, i.kind, sum(i.price) AS p FROM orders AS o JOIN items AS i ON o.id = i.order_id GROUP BY o.status, i.kind",
    "SELECT u.city AS city, sum(i.price * i.n) AS total FROM items AS i JOIN orders AS o ON i.order_id = o.id JOIN users AS u ON o.user_id = u.id WHERE i.n > 1 GROUP BY u.city ORDER BY city",
    "SELECT r.zone, avg(u.age) AS a FROM users AS u JOIN regions AS r ON u.city = r.city GROUP BY r.zone",
    "SELECT qty, count(*) AS c FROM orders WHERE amount BETWEEN 1 AND 40 GROUP BY qty",
    "SELECT max(age) AS mx, min(age) AS mn, count(*) AS c FROM users",
    "SELECT city, age FROM users WHERE age IS NOT NULL AND city LIKE 'N%'",
    "SELECT t1.user_id, t2.c FROM orders AS t1 JOIN (SELECT user_id, count(*) AS c FROM orders GROUP BY user_id) AS t2 ON t1.user_id = t2.user_id",
    "WITH a AS (SELECT city, count(*) AS c FROM users GROUP BY city), b AS (SELECT city, factor FROM regions) SELECT a.city, a.c * b.factor AS w FROM a JOIN b ON a.city = b.city",
    "SELECT status FROM orders UNION ALL SELECT kind FROM items",
    "SELECT -age AS neg, age / 2 AS half, age - score AS d FROM users",
    "SELECT count(DISTINCT city) AS dc, sum(DISTINCT age) AS da FROM users",
    "SELECT rand() AS r, id FROM users",
    // shapes with several items in what could be an unordered collection
    "SELECT * FROM users AS a NATURAL JOIN users AS b",
    "SELECT * FROM orders AS a JOIN orders AS b USING (id, user_id)",
    "SELECT a.id, b.qty FROM orders AS a NATURAL LEFT JOIN orders AS b",
    "WITH x AS (SELECT id, city FROM users), y AS (SELECT id, city, age FROM users), z AS (SELECT city, zone FROM regions) SELECT * FROM x NATURAL JOIN y NATURAL JOIN z",
    "SELECT u.id, u.id AS id2, o.id AS oid FROM users AS u JOIN orders AS o ON u.id = o.user_id",
    "SELECT * FROM users JOIN orders ON users.id = orders.user_id JOIN items ON items.order_id = orders.id",
    "SELECT city, vip, count(*), sum(age), avg(score), min(age), max(score) FROM users GROUP BY city, vip",
    "SELECT count(*), count(*), sum(age) FROM users",
    "SELECT age + 1, age + 1, age * 2 FROM users",
    "SELECT * FROM (SELECT * FROM users) AS t1 JOIN (SELECT * FROM users) AS t2 ON t1.id = t2.id",
    "SELECT status, qty, count(*) AS c FROM orders GROUP BY status, qty ORDER BY status, qty",
    "SELECT * FROM users AS a FULL JOIN regions AS b ON a.city = b.city",
    "SELECT * FROM orders AS a NATURAL JOIN (SELECT id, user_id, status FROM orders) AS b",
    "SELECT x.city, x.c + y.c AS t FROM (SELECT city, count(*) AS c FROM users GROUP BY city) AS x JOIN (SELECT city, count(*) AS c FROM regions GROUP BY city) AS y ON x.city = y.city",
    // shapes probing the rendering fixpoint
    "SELECT * FROM orders LEFT JOIN users ON orders.user_id = users.id AND users.age > 30",
    "SELECT city FROM users WHERE city = 'it''s' OR city = 'NY'",
    "SELECT 'a''b' AS s, city FROM users",
    "SELECT cast(age AS float) AS f, cast(score AS integer) AS i, cast(id AS varchar) AS t FROM users",
    "SELECT age AS \"My Age\" FROM users ORDER BY \"My Age\"",
    "SELECT city AS \"City\", count(*) AS \"N\" FROM users GROUP BY city ORDER BY \"City\"",
    "SELECT DISTINCT city FROM users ORDER BY city",
    "SELECT id, age FROM users ORDER BY id LIMIT 4 OFFSET 1",
    "SELECT id, amount FROM orders WHERE amount IS NOT NULL ORDER BY id DESC LIMIT 5",
    "SELECT u.city, o.status, count(*) AS c FROM users AS u RIGHT JOIN orders AS o ON u.id = o.user_id GROUP BY u.city, o.status",
    "SELECT id FROM users WHERE NOT (age > 30 AND vip) OR score < 0",
    "SELECT CASE WHEN age < 20 THEN 'a' WHEN age < 40 THEN 'b' ELSE 'c' END AS band, avg(score) AS s FROM users GROUP BY CASE WHEN age < 20 THEN 'a' WHEN age < 40 THEN 'b' ELSE 'c' END",
    // literals, casts and operator precedence through the renderer
    "SELECT id, (age + 1) * 2 AS a, age + 1 * 2 AS b, -(age - 1) AS c, age - (score - 1) AS d, age - -1 AS e FROM users ORDER BY id",
    "SELECT id, 10 - age - 1 AS l, 10 - (age - 1) AS r, 100.5 / (score + 1000.5) / 2.5 AS q, 100.5 / ((score + 1000.5) / 2.5) AS q2 FROM users ORDER BY id",
    "SELECT id, score * 0.0000001 AS tiny, score * 1e-7 AS tiny2, age + 123456789012 AS big, score * 1.5e10 AS c, score + 0.1 AS f FROM users ORDER BY id",
    "SELECT id FROM users WHERE city IN ('NY') AND age NOT BETWEEN 20 AND 30 ORDER BY id",
    "SELECT id, age > 30 AND NOT (vip OR age < 20) AS f, (age > 30 OR vip) AND age < 60 AS g, age > 30 OR vip AND age < 60 AS h FROM users ORDER BY id",
    "SELECT id, CASE WHEN vip THEN 1 ELSE 0 END AS v, CASE WHEN score IS NULL THEN -1 ELSE score END AS s, CASE WHEN age > 40 THEN 'x' END AS n FROM users ORDER BY id",
    "SELECT id, age % 3 AS m, (age + 1) % 3 AS n, age * 2 % 5 AS o FROM users ORDER BY id",
    "SELECT id, amount FROM orders ORDER BY id OFFSET 2",
    "SELECT id, age FROM users ORDER BY age DESC, id ASC LIMIT 3",
    "SELECT id, 'x\\y' AS b, 'a\"b' AS q, '' AS e, ' ' AS sp FROM users ORDER BY id",
    "SELECT id, vip = TRUE AS t, NOT vip AS nv, FALSE AS f FROM users ORDER BY id",
    "SELECT id, cast(age AS varchar) AS t, cast(cast(age AS float) / 2 AS integer) AS h, cast(vip AS integer) AS b FROM users ORDER BY id",
    "SELECT id, abs(score - 1) AS a, greatest(age, 30) AS g, least(age, 30) AS l FROM users ORDER BY id",
    "SELECT count(*) AS c, sum(score) / (count(*) + 1.5) AS m, sum(age * 2 + 1) AS s, avg(age) - 1 AS a FROM users",
    "SELECT city, sum(CASE WHEN age > 30 THEN 1 ELSE 0 END) AS old, count(*) - 1 AS c1 FROM users GROUP BY city ORDER BY city",
    "SELECT id, age FROM users WHERE (age > 30 AND vip) OR (age <= 30 AND NOT vip) ORDER BY id",
    "SELECT id FROM users WHERE age > 30 AND (vip OR score < 0) ORDER BY id",
    "SELECT id, amount FROM orders WHERE amount > -5.5 AND amount < 1000000 AND qty <> 0 ORDER BY id",
    // scalar functions through the renderer
    "SELECT id, substr(city, 1, 1) AS s1, substring(city FROM 2) AS s2, substring(city FROM 1 FOR 2) AS s3 FROM users ORDER BY id",
    "SELECT id, position('N' IN city) AS p FROM users ORDER BY id",
    "SELECT id, trim(city) AS t FROM users ORDER BY id",
    "SELECT id, ltrim(city, 'N') AS l, rtrim(city, 'Y') AS r FROM users ORDER BY id",
    "SELECT id, trim(BOTH 'N' FROM city) AS b, trim(LEADING 'N' FROM city) AS l, trim(TRAILING 'Y' FROM city) AS t FROM users ORDER BY id",
    "SELECT id, ceil(score) AS c, floor(score) AS f, sign(score - 1) AS sg, pow(age, 2) AS p2, power(age, 0.5) AS p05 FROM users ORDER BY id",
    "SELECT id, coalesce(score, 0) AS c2, coalesce(cast(age AS float), score) AS c3 FROM users ORDER BY id",
    "SELECT id, greatest(age, score) AS g2, least(score, 1) AS l2 FROM users ORDER BY id",
    "SELECT id, concat(city, '-', city) AS cc, city || '/' || city AS pp, upper(lower(city)) AS ul, md5(city) AS h FROM users ORDER BY id",
    "SELECT o.id AS oid, round(u.score, 1) AS r1, trunc(u.score, 1) AS t1, trunc(u.score) AS t0, round(o.amount, 0) AS r0 FROM orders AS o JOIN users AS u ON o.user_id = u.id ORDER BY oid",
    "SELECT id, city ILIKE 'n%' AS il, city NOT LIKE 'N%' AS nl, city LIKE '%' AS al FROM users ORDER BY id",
    "SELECT id, age BETWEEN 20 AND 40 AS b, age NOT BETWEEN 20 AND 40 AS nb, age NOT IN (20, 21) AS ni FROM users ORDER BY id",
    "SELECT id, cast(score AS text) AS st, cast(vip AS text) AS vt FROM users ORDER BY id",
    "SELECT id, cast('12' AS integer) AS i12, cast('1.5' AS float) AS f15 FROM users ORDER BY id",
    "SELECT id, round(0, 1) AS z, round(0.0, 1) AS z2, trunc(0, 1) AS t FROM users ORDER BY id",
    "SELECT id, exp(ln(age + 1)) AS el, log(age + 1) AS lg, sin(score) AS sn, cos(score) AS cs, abs(-age) AS ab FROM users ORDER BY id",
    "SELECT id, CASE city WHEN 'NY' THEN 1 WHEN 'LA' THEN 2 ELSE 0 END AS cc, CASE WHEN age IS NULL THEN 'n' WHEN age > 30 THEN 'o' ELSE 'y' END AS g FROM users ORDER BY id",
    "SELECT count(*) AS c, count(score) AS cs, sum(score) AS s, avg(score) AS a, min(score) AS mn, max(score) AS mx, stddev(score) AS sd, variance(score) AS v FROM users",
    "SELECT city, count(DISTINCT age) AS da, avg(DISTINCT age) AS aa, min(city) AS mc, max(zip) AS mz FROM users GROUP BY city ORDER BY city",
    "SELECT id, age FROM users WHERE city IN ('NY', 'LA') AND age NOT IN (20) AND NOT (score IS NULL) ORDER BY id",
    "SELECT a.id, b.amount FROM users AS a JOIN orders AS b ON a.id = b.user_id ORDER BY a.id, b.amount",
    "SELECT a.id AS uid, b.amount AS amt FROM users AS a JOIN orders AS b ON a.id = b.user_id ORDER BY uid, amt",
    // the rest of the function table: logarithms of every spelling, trigonometry, constants,
    // trimming, regular expressions, encodings, dates
    "SELECT id, log2(age) AS l2, log10(age + 1) AS l10, log(2, age) AS lb FROM users ORDER BY id",
    "SELECT id, degrees(score) AS d FROM users ORDER BY id",
    "SELECT id, pi() AS p, age * pi() AS ap FROM users ORDER BY id",
    "SELECT id, btrim(city, 'N') AS c FROM users ORDER BY id",
    "SELECT id, regexp_contains(city, 'N.*') AS rc, regexp_extract(city, '(N)(Y)', 0, 1) AS re, regexp_replace(city, 'N', 'M') AS rr FROM users ORDER BY id",
    "SELECT id, encode(city, 'hex') AS e FROM users ORDER BY id",
    "SELECT id, decode(city, 'hex') AS d FROM users ORDER BY id",
    // special syntaxes and operator neighbourhoods, written by hand on both sides (parser and renderer)
    "SELECT id FROM users WHERE city NOT ILIKE 'n%' ORDER BY id",
    "SELECT id, age IN (30) AS one, NOT (age IN (30)) AS none FROM users ORDER BY id",
    "SELECT id, 1e3 AS k, 1.5e-3 AS m, -age AS na, - (age - 3) AS nb, -(-age) AS nn FROM users ORDER BY id",
    // sibling sub-queries that differ only by a literal below the machine epsilon (content-hashed names must tell them apart)
    "SELECT a.id FROM (SELECT id FROM users WHERE score > 1e-20) AS a JOIN (SELECT id FROM users WHERE score > 1e-30) AS b ON a.id = b.id ORDER BY a.id",
    "SELECT id FROM users WHERE score > 1e-20 UNION SELECT id FROM users WHERE score > 0 ORDER BY id",
    "SELECT a.id, a.t, b.t AS u FROM (SELECT id, score + 1e-17 AS t FROM users) AS a JOIN (SELECT id, score + 1e-19 AS t FROM users) AS b ON a.id = b.id ORDER BY a.id",
    "SELECT id, SUBSTRING(city FROM 1 FOR 1) AS s, POSITION('Y' IN city) AS p FROM users ORDER BY id",
    "SELECT id, TRIM(BOTH 'N' FROM city) AS t, TRIM(LEADING 'N' FROM city) AS tl, TRIM(TRAILING 'Y' FROM city) AS tt FROM users ORDER BY id",
    "SELECT id, -age * 2 AS a, -(age * 2) AS b, pow(-age, 2) AS c, -pow(age, 2) AS d, 2 - -age AS e FROM users ORDER BY id",
    "SELECT id, NOT age > 30 AS a, (NOT (age > 30)) = vip AS b, (NOT vip) = (age > 30) AS c FROM users ORDER BY id",
    "SELECT id, city || '-' || city AS a, city || CAST(age + 1 AS TEXT) AS c FROM users ORDER BY id",
    "SELECT id, CASE WHEN age > 50 THEN CASE WHEN vip THEN 'a' ELSE 'b' END ELSE 'c' END AS n FROM users ORDER BY id",
    "SELECT id, vip IS FALSE AS f, vip IS NOT FALSE AS nf, vip IS NOT TRUE AS nt FROM users ORDER BY id",
    "SELECT id, NULL + age AS na, coalesce(NULL, age) AS c FROM users ORDER BY id",
    "SELECT id, age FROM users EXCEPT SELECT user_id, qty FROM orders",
    "SELECT city FROM users INTERSECT SELECT city FROM regions",
    "SELECT * FROM users AS u JOIN orders AS o ON u.id = o.user_id ORDER BY o.id",
    "SELECT id, CAST(age AS FLOAT) / 3 AS a, CAST(score AS INTEGER) AS b, CAST(age AS TEXT) AS c, CAST(vip AS INTEGER) AS d FROM users ORDER BY id",
    "SELECT id, (age BETWEEN 20 AND 30) AND vip AS c, NOT (age BETWEEN 20 AND 30) AS d FROM users ORDER BY id",
    "SELECT id, age - (score - 1) AS a, age - score - 1 AS b, age / (score / 2) AS c, age / score / 2 AS d, age - (score + 1) AS e FROM users ORDER BY id",
    "SELECT id, age * (score + 1) AS a, (age + 1) * score AS b, age % 3 AS m, -age % 3 AS nm, -(age % 3) AS mn FROM users ORDER BY id",
    "SELECT DISTINCT city FROM users ORDER BY city LIMIT 2",
    "SELECT city, count(*) AS c FROM users GROUP BY city HAVING count(*) > 1 AND avg(age) > 20 ORDER BY city",
    // literals far from 1 that need all 17 significant digits of an f64
    "SELECT id, score * 1.2345678901234567e-11 AS t, score + 98765432109.87654 AS u, score * 0.00000000000123456789012345678 AS v, score * 7.0000000000000007e15 AS w FROM users ORDER BY id",
    // the clock: nothing in a compilation may depend on when (or on which thread) it ran
    "SELECT id, CURRENT_TIMESTAMP AS seen_at FROM users ORDER BY id",
    "SELECT id, CURRENT_DATE AS d, CURRENT_TIME AS t FROM users WHERE age > 20 ORDER BY id",
    // one variadic function at several arities
    "SELECT id, concat(city, city) AS c2 FROM users ORDER BY id",
    "SELECT id, concat(city, '/', city, '!') AS c4 FROM users WHERE id > 1 ORDER BY id",
    "SELECT id, concat(city) AS c1, coalesce(score, 1) AS s FROM users ORDER BY id",
    "SELECT status, concat(status, '-', status) AS ss, concat(status, status) AS s2 FROM orders",
    // column aliases declared on CTEs and derived tables (renaming)
    "WITH t (x, y) AS (SELECT id, age FROM users) SELECT x, y + 1 AS z FROM t ORDER BY x",
    "WITH a (k, n) AS (SELECT city, count(*) FROM users GROUP BY city), b (k, f) AS (SELECT city, factor FROM regions) SELECT a.k, a.n * b.f AS w FROM a JOIN b ON a.k = b.k",
    "WITH t (u, total) AS (SELECT user_id, sum(amount) FROM orders GROUP BY user_id) SELECT users.city, t.total FROM users JOIN t ON users.id = t.u",
    // one CTE read twice (a shared node of the relation graph)
    "WITH t AS (SELECT id, age FROM users WHERE age > 20) SELECT a.id, b.age FROM t AS a JOIN t AS b ON a.id = b.id ORDER BY a.id",
    "WITH t AS (SELECT city, count(*) AS c FROM users GROUP BY city) SELECT city, c FROM t UNION ALL SELECT city, c FROM t",
    // postfix / infix predicates over compound operands
    "SELECT id FROM users WHERE (age > 30 AND vip) IS NULL ORDER BY id",
    "SELECT id, (age > 30 OR vip) IS NOT NULL AS n, (score + 1) IS NULL AS m FROM users ORDER BY id",
    "SELECT id, age IN (20, 30) AS i, (age + 1) IN (20, 31) AS j, NOT (age IN (18, 19)) AS k FROM users ORDER BY id",
    "SELECT id FROM users WHERE NOT (city LIKE 'N%' OR vip) ORDER BY id",
    "SELECT id, (age > 30 OR vip) IN (TRUE) AS a, (NOT vip) IS NULL AS b, (age > 30 AND vip) IN (FALSE) AS c FROM users ORDER BY id",
    "SELECT id, (CASE WHEN vip THEN city ELSE 'N' END) LIKE 'N%' AS l, (city || 'x') LIKE '%x' AS m FROM users ORDER BY id",
    "SELECT id, vip IS TRUE AS t, vip IS NOT TRUE AS nt FROM users ORDER BY id",
    "SELECT id, round(score, 2) AS r, round(score) AS r0, round(age / 7.0, 1) AS q FROM users ORDER BY id",
    "SELECT id, 'a''''b' AS qq, 'it''s' || city AS c FROM users ORDER BY id",
    "SELECT id, -(-age) AS pp, - age * 2 AS m, -(age * 2) AS n, NOT NOT vip AS v FROM users ORDER BY id",
];

pub fn generate(seed: u64, run: u64, depth: u32) -> Workload {
    let g = gen::generate(seed, run, "C16");
    let sc = g.scenario;
    let mut r = Rng::stream(seed, run, "workload");
    // queries: the run's generated aggregation query + 4..8 corpus entries (+ sometimes the
    // aggregation query of another run over the same catalogue shape)
    let mut queries = vec![sc.sql.clone()];
    let n = 4 + r.usize(5);
    let mut idx: Vec<usize> = (0..CORPUS.len()).collect();
    r.shuffle(&mut idx);
    for i in idx.into_iter().take(n) {
        queries.push(CORPUS[i].to_string());
    }
    if r.chance(0.5) {
        queries.push(gen::generate(seed, run.wrapping_mul(7919).wrapping_add(13), "C16").scenario.sql);
    }
    let k = if depth > 0 { 1 + r.weighted(&[1, 2, 4, 3, 2]) } else { 1 + r.weighted(&[1, 3, 4, 2]) };
    let nq = queries.len();
    let mut threads = vec![];
    for _ in 0..k {
        let n_ops = 3 + r.usize(if depth > 0 { 16 } else { 10 });
        let mut ops = vec![];
        for _ in 0..n_ops {
            ops.push(gen_op(&mut r, nq, true));
        }
        threads.push(ops);
    }
    // bursts of synthetic names (own stream): one or two, in other orders than the quiescent pass
    let mut rb = Rng::stream(seed, run, "name_burst");
    if rb.chance(0.4) {
        for _ in 0..(1 + rb.usize(2)) {
            let t = rb.usize(threads.len());
            let at = rb.usize(threads[t].len() + 1);
            let stride = 2 * rb.below(NAME_PROBES / 2) + 1;
            threads[t].insert(at, Op::NameBurst(rb.below(NAME_PROBES), 800 + rb.below(1600) as u32, stride));
        }
    }
    let sched = if r.chance(0.6) { Sched::Random(r.next_u64()) } else { Sched::Pct(r.next_u64(), 1 + r.usize(4)) };
    let sc_alt = Some(gen::generate(seed, run ^ 0x5555_5555, "C16").scenario);
    Workload { seed, run, sc, sc_alt, queries, threads, sched }
}

fn gen_op(r: &mut Rng, nq: usize, allow_spawn: bool) -> Op {
    match r.weighted(&[40, 12, 10, 8, 4, 8, 4, 5, if allow_spawn { 6 } else { 0 }, 3]) {
        0 => {
            if r.chance(0.25) {
                Op::ParseAlt(r.usize(nq))
            } else {
                Op::Parse(r.usize(nq))
            }
        }
        1 => Op::Render(r.usize(nq)),
        2 => Op::Reparse(r.usize(nq)),
        3 => Op::DpRewrite(r.usize(nq)),
        4 => Op::PupRewrite(r.usize(nq)),
        5 => {
            let p = *r.pick(&["GAUSSIAN_NOISE", "UNIFORM_SAMPLING", "field", "table", "users", "orders"]);
            let n = if r.chance(0.2) { 1000 + r.below(5000) } else { 1 + r.below(9) };
            Op::Burn(p.to_string(), n)
        }
        6 => Op::BuildUnnamed,
        7 => Op::Reset,
        8 => Op::Spawn(Box::new(gen_op(r, nq, false))),
        _ => Op::Abandon(r.usize(nq), 1 + r.below(120)),
    }
}

/// Delta debugging of a failing workload: fewer threads, fewer ops, fewer queries (indices kept
/// stable by replacing dropped queries' ops), same scheduler seed.
pub fn minimise(wl: Workload, invariant: &str, class: &str, run: impl Fn(Workload) -> RunRecord) -> (Workload, u64) {
    let fails = |w: &Workload| -> bool {
        let rec = run(w.clone());
        rec.verdict
            .get("Violations")
            .and_then(|v| v.as_array())
            .map(|a| a.iter().any(|x| x["invariant"] == invariant && x["class"] == class))
            .unwrap_or(false)
    };
    let mut best = wl;
    let mut tried = 0u64;
    // drop whole threads
    let mut ti = 0;
    while ti < best.threads.len() && best.threads.len() > 1 {
        let mut c = best.clone();
        c.threads.remove(ti);
        tried += 1;
        if fails(&c) {
            best = c;
        } else {
            ti += 1;
        }
    }
    // drop ops
    for ti in 0..best.threads.len() {
        let mut oi = 0;
        while oi < best.threads[ti].len() {
            if tried > 300 {
                break;
            }
            let mut c = best.clone();
            c.threads[ti].remove(oi);
            tried += 1;
            if fails(&c) {
                best = c;
            } else {
                oi += 1;
            }
        }
    }
    // simplest scheduler
    {
        let mut c = best.clone();
        c.sched = Sched::Random(1);
        tried += 1;
        if fails(&c) {
            best = c;
        }
    }
    // drop data rows wholesale (the instance only matters for the semantic sub-check)
    {
        let mut c = best.clone();
        for t in c.sc.tables.iter_mut() {
            t.rows.truncate(3);
        }
        tried += 1;
        if fails(&c) {
            best = c;
        }
    }
    (best, tried)
}
