//! Sim-A: the "compile service" - caller threads x process-global name state x hash seeds
//! (DESIGN 2.1). Decides C16. Built with `--cfg qrlew_verif`: the name counter's lock, the
//! per-thread implementation tables and the preemption points inside qrlew belong to shuttle,
//! whose seeded scheduler decides every interleaving.
mod workload;

use qrlew::{
    ast,
    builder::{Ready, With},
    data_type::{DataType, DataTyped},
    dialect_translation::RelationWithTranslator,
    namer,
    relation::{Relation, Variant as _},
    sql::parse,
};
use serde::{Deserialize, Serialize};
use serde_json::json;
use simcommon::{
    engine::{DrawMode, DrawPlan, Engine},
    scenario::{Scenario, TableSpec},
    translator::SimTranslator,
};
use std::collections::BTreeMap;
use std::io::Write;
use std::sync::{Arc, Mutex};
use workload::{Op, Sched, Workload};

#[derive(Clone, Debug, Default, Serialize, Deserialize, PartialEq)]
pub struct Compiled {
    pub ok: bool,
    pub err: String,
    pub display: String,
    pub sql: String,
    pub schema: String,
}

#[derive(Clone)]
pub struct Reference {
    pub c: Compiled,
    pub relation: Option<Relation>,
    pub has_random: bool,
    pub canon_display: String,
    pub canon_sql: String,
    /// names of the synthetic probe contents in the quiescent pass (first reference only, and only
    /// when the workload has a NameBurst)
    pub probe_names: Vec<String>,
    /// one line per stock dialect translator: hash of the text it renders, or `panic`
    pub dialects: Vec<String>,
}

fn probe_name(v: u64) -> String {
    namer::name_from_content("probe", &format!("verif-probe-content-{}", v))
}

fn has_name_burst(wl: &Workload) -> bool {
    fn is(op: &Op) -> bool {
        match op {
            Op::NameBurst(_, _, _) => true,
            Op::Spawn(inner) => is(inner),
            _ => false,
        }
    }
    wl.threads.iter().any(|t| t.iter().any(is))
}

fn schema_string(r: &Relation) -> String {
    r.schema().iter().map(|f| format!("{}:{}", f.name(), f.data_type())).collect::<Vec<_>>().join(", ")
}

fn compile(sc_rel: &qrlew::hierarchy::Hierarchy<Arc<Relation>>, q: &str) -> (Compiled, Option<Relation>) {
    // a panic inside the compiler is an outcome like an error (totality is not C16's subject,
    // but "panics under one history and not under another" is a determinism mismatch)
    match std::panic::catch_unwind(std::panic::AssertUnwindSafe(|| compile_inner(sc_rel, q))) {
        Ok(x) => x,
        Err(p) => {
            let msg = if let Some(s) = p.downcast_ref::<String>() { s.clone() } else if let Some(s) = p.downcast_ref::<&str>() { s.to_string() } else { "<panic>".into() };
            if msg.starts_with("verif: caller abandoned") {
                std::panic::resume_unwind(p);
            }
            (Compiled { ok: false, err: format!("panic: {}", first_line(&msg)), ..Default::default() }, None)
        }
    }
}

fn compile_inner(sc_rel: &qrlew::hierarchy::Hierarchy<Arc<Relation>>, q: &str) -> (Compiled, Option<Relation>) {
    let parsed = match parse(q) {
        Ok(p) => p,
        Err(e) => return (Compiled { ok: false, err: format!("parse: {}", first_line(&e.to_string())), ..Default::default() }, None),
    };
    match Relation::try_from(parsed.with(sc_rel)) {
        Ok(r) => {
            let c = Compiled {
                ok: true,
                err: String::new(),
                display: format!("{}", r),
                sql: ast::Query::from(&r).to_string(),
                schema: schema_string(&r),
            };
            (c, Some(r))
        }
        Err(e) => (Compiled { ok: false, err: format!("relation: {}", first_line(&e.to_string())), ..Default::default() }, None),
    }
}

fn first_line(s: &str) -> String {
    s.lines().next().unwrap_or("").chars().take(160).collect()
}

/// Rename generated names by order of first appearance: `map_x7k2` -> `map#0`.
/// Generated names are `<prefix>_<4 chars of base 37>`.
pub fn canonicalise(text: &str) -> String {
    const PREFIXES: [&str; 9] = ["map", "reduce", "join", "set", "field", "values", "table", "FILTER_", "left_"];
    let mut out = String::with_capacity(text.len());
    let mut seen: BTreeMap<String, usize> = BTreeMap::new();
    let chars: Vec<char> = text.chars().collect();
    let mut i = 0;
    while i < chars.len() {
        let c = chars[i];
        if c.is_ascii_alphabetic() || c == '_' {
            let start = i;
            while i < chars.len() && (chars[i].is_ascii_alphanumeric() || chars[i] == '_') {
                i += 1;
            }
            let tok: String = chars[start..i].iter().collect();
            let mut replaced = false;
            for p in PREFIXES.iter() {
                let pre = format!("{}_", p);
                if tok.starts_with(&pre) && tok.len() == pre.len() + 4 {
                    let n = seen.len();
                    let id = *seen.entry(tok.clone()).or_insert(n);
                    out.push_str(&format!("{}#{}", p, id));
                    replaced = true;
                    break;
                }
            }
            if !replaced {
                out.push_str(&tok);
            }
        } else {
            out.push(c);
            i += 1;
        }
    }
    out
}

fn has_random(q: &str) -> bool {
    let l = q.to_lowercase();
    l.contains("random(") || l.contains("rand(")
}

fn has_set_op(q: &str) -> bool {
    let l = q.to_lowercase();
    l.contains(" union ") || l.contains(" except ") || l.contains(" intersect ")
}

#[derive(Clone, Debug, Serialize, Deserialize, PartialEq)]
pub struct Violation {
    pub property: String,
    pub invariant: String,
    pub class: String,
    pub detail: String,
    pub witness: serde_json::Value,
}

#[derive(Default)]
struct Shared {
    events: Vec<String>,
    violations: Vec<Violation>,
    faults: BTreeMap<String, u64>,
    probes: BTreeMap<String, u64>,
    ids: BTreeMap<String, Vec<usize>>,
}

fn render_sim(r: &Relation) -> String {
    ast::Query::from(RelationWithTranslator(r, SimTranslator::default())).to_string()
}

/// The relation through every stock dialect translator: rendering is a function of (relation,
/// translator) for each of them. A translator that does not support a construct panics; that
/// outcome is part of the function too.
fn render_dialects(r: &Relation) -> Vec<String> {
    use qrlew::dialect_translation::{bigquery::BigQueryTranslator, databricks::DatabricksTranslator, hive::HiveTranslator, mssql::MsSqlTranslator, mysql::MySqlTranslator, redshiftsql::RedshiftSqlTranslator};
    fn one<T: qrlew::dialect_translation::RelationToQueryTranslator>(name: &str, r: &Relation, t: T) -> String {
        match std::panic::catch_unwind(std::panic::AssertUnwindSafe(|| ast::Query::from(RelationWithTranslator(r, t)).to_string())) {
            Ok(text) => format!("{}:{:016x}:{}:{:016x}", name, hash64(&canonicalise(&text)), text.len(), hash64(&text)),
            Err(_) => format!("{}:panic", name),
        }
    }
    vec![
        one("bigquery", r, BigQueryTranslator),
        one("mssql", r, MsSqlTranslator),
        one("mysql", r, MySqlTranslator),
        one("hive", r, HiveTranslator),
        one("databricks", r, DatabricksTranslator),
        one("redshift", r, RedshiftSqlTranslator),
    ]
}

fn hash64(s: &str) -> u64 {
    let mut h: u64 = 0xcbf29ce484222325;
    for b in s.bytes() {
        h ^= b as u64;
        h = h.wrapping_mul(0x100000001b3);
    }
    h
}

struct Ctx {
    wl: Workload,
    relations: qrlew::hierarchy::Hierarchy<Arc<Relation>>,
    refs: Vec<Reference>,
    relations_alt: Option<qrlew::hierarchy::Hierarchy<Arc<Relation>>>,
    refs_alt: Vec<Reference>,
    shared: Arc<Mutex<Shared>>,
}

fn violation(ctx: &Ctx, invariant: &str, class: &str, detail: String, witness: serde_json::Value) {
    let mut s = ctx.shared.lock().unwrap();
    if s.violations.len() < 8 {
        s.violations.push(Violation { property: "C16".into(), invariant: invariant.into(), class: class.into(), detail, witness });
    }
}

fn check_against_ref(ctx: &Ctx, who: &str, qi: usize, c: &Compiled, r: &Option<Relation>) {
    check_against(ctx, who, qi, c, r, false)
}

fn check_against(ctx: &Ctx, who: &str, qi: usize, c: &Compiled, r: &Option<Relation>, alt: bool) {
    let rf = if alt { &ctx.refs_alt[qi] } else { &ctx.refs[qi] };
    let q = &ctx.wl.queries[qi];
    if c.ok != rf.c.ok {
        violation(
            ctx,
            "parse_outcome",
            "unclassified",
            format!("{}: `{}` {} here but {} in the quiescent reference pass ({} / {})", who, q, if c.ok { "compiles" } else { "fails" }, if rf.c.ok { "compiled" } else { "failed" }, c.err, rf.c.err),
            json!({"query": q, "here": c.err, "reference": rf.c.err}),
        );
        return;
    }
    if !c.ok {
        return;
    }
    let same_text = c.display == rf.c.display && c.sql == rf.c.sql && c.schema == rf.c.schema;
    let same_rel = match (r, &rf.relation) {
        (Some(a), Some(b)) => a == b,
        _ => true,
    };
    if same_text && same_rel {
        return;
    }
    // known finding: queries calling random()/rand() carry a process-global id in their content.
    // Excused only if everything is equal once generated names are canonicalised.
    let canon_equal = canonicalise(&c.display) == rf.canon_display && canonicalise(&c.sql) == rf.canon_sql && canonicalise(&c.schema) == canonicalise(&rf.c.schema);
    let class = if rf.has_random && canon_equal { "random_ids" } else { "unclassified" };
    let what = if c.schema != rf.c.schema {
        "output schema"
    } else if c.sql != rf.c.sql {
        "rendered SQL"
    } else if c.display != rf.c.display {
        "relation text"
    } else {
        "relation structure (PartialEq)"
    };
    violation(
        ctx,
        "parse_differs_from_reference",
        class,
        format!("{}: `{}` compiles to a different {} than in the quiescent reference pass", who, q, what),
        json!({"query": q, "what": what, "here": first_diff(&c.sql, &rf.c.sql), "canonical_forms_equal": canon_equal}),
    );
}

fn first_diff(a: &str, b: &str) -> String {
    let (ac, bc): (Vec<char>, Vec<char>) = (a.chars().collect(), b.chars().collect());
    let mut i = 0;
    while i < ac.len() && i < bc.len() && ac[i] == bc[i] {
        i += 1;
    }
    let s = i.saturating_sub(30);
    format!("...{} | ...{}", ac[s..(i + 40).min(ac.len())].iter().collect::<String>(), bc[s..(i + 40).min(bc.len())].iter().collect::<String>())
}

fn event(ctx: &Ctx, line: String) {
    ctx.shared.lock().unwrap().events.push(line);
}

fn fault(ctx: &Ctx, k: &str) {
    *ctx.shared.lock().unwrap().faults.entry(k.to_string()).or_default() += 1;
}

fn probe(ctx: &Ctx, k: &str) {
    *ctx.shared.lock().unwrap().probes.entry(k.to_string()).or_default() += 1;
}

fn exec_op(ctx: &Arc<Ctx>, who: &str, op: &Op) {
    match op {
        Op::Parse(qi) => {
            let (c, r) = compile(&ctx.relations, &ctx.wl.queries[*qi]);
            event(ctx, format!("{} parse q{} ok={} h={:016x}", who, qi, c.ok, hash64(&format!("{}|{}|{}", canonicalise(&c.display), canonicalise(&c.sql), c.schema.len()))));
            check_against_ref(ctx, who, *qi, &c, &r);
        }
        Op::ParseAlt(qi) => {
            if let Some(rel_alt) = &ctx.relations_alt {
                let (c, r) = compile(rel_alt, &ctx.wl.queries[*qi]);
                fault(ctx, "second_catalogue");
                event(ctx, format!("{} parse_alt q{} ok={} h={:016x}", who, qi, c.ok, hash64(&format!("{}|{}|{}", canonicalise(&c.display), canonicalise(&c.sql), c.schema.len()))));
                check_against(ctx, who, *qi, &c, &r, true);
            }
        }
        Op::Render(qi) => {
            if let Some(r) = &ctx.refs[*qi].relation {
                let a = ast::Query::from(r).to_string();
                let b = ast::Query::from(r).to_string();
                let d = render_dialects(r);
                // (events carry the hashes of the texts with generated names made canonical, as for
                // the stock rendering: the random_ids finding changes names, and names only)
                let canon = |v: &Vec<String>| -> Vec<String> { v.iter().map(|x| x.rsplitn(2, ':').last().unwrap_or("").to_string()).collect() };
                event(ctx, format!("{} render q{} h={:016x} d={:016x}", who, qi, hash64(&canonicalise(&a)), hash64(&canon(&d).join("|"))));
                if a != b || a != ctx.refs[*qi].c.sql {
                    violation(
                        ctx,
                        "render_not_stable",
                        "unclassified",
                        format!("{}: rendering the relation of `{}` twice gives different text (or differs from the reference rendering)", who, ctx.wl.queries[*qi]),
                        json!({"query": ctx.wl.queries[*qi], "diff": first_diff(&a, &b), "vs_reference": first_diff(&a, &ctx.refs[*qi].c.sql)}),
                    );
                }
                // ... and so through every stock dialect translator
                probe(ctx, "dialect_renderings_compared");
                let differs = if ctx.refs[*qi].has_random { canon(&d) != canon(&ctx.refs[*qi].dialects) } else { d != ctx.refs[*qi].dialects };
                if differs {
                    let which: Vec<String> = d.iter().zip(ctx.refs[*qi].dialects.iter()).filter(|(x, y)| x != y).map(|(x, y)| format!("{} vs reference {}", x, y)).collect();
                    violation(
                        ctx,
                        "render_not_stable",
                        "unclassified",
                        format!("{}: rendering the relation of `{}` through a dialect translator differs from the rendering of the quiescent pass", who, ctx.wl.queries[*qi]),
                        json!({"query": ctx.wl.queries[*qi], "dialects": which}),
                    );
                }
            }
        }
        Op::Reparse(qi) => {
            if let Some(r) = &ctx.refs[*qi].relation {
                let text = ast::Query::from(r).to_string();
                let (c2, r2) = compile(&ctx.relations, &text);
                event(ctx, format!("{} reparse q{} ok={}", who, qi, c2.ok));
                reparse_check(ctx, who, *qi, r, &text, &c2, &r2, false);
            }
        }
        Op::DpRewrite(qi) | Op::PupRewrite(qi) => {
            if let Some(r) = ctx.refs[*qi].relation.clone() {
                let sc = ctx.wl.sc.clone();
                let rel = ctx.relations.clone();
                let dp = matches!(op, Op::DpRewrite(_));
                let res = std::panic::catch_unwind(std::panic::AssertUnwindSafe(move || {
                    if dp {
                        r.rewrite_with_differential_privacy(&rel, sc.synthetic_data(), sc.privacy_unit(), sc.params.dp()).is_ok()
                    } else {
                        r.rewrite_as_privacy_unit_preserving(&rel, sc.synthetic_data(), sc.privacy_unit(), sc.params.dp(), None).is_ok()
                    }
                }));
                event(ctx, format!("{} {} q{} -> {:?}", who, if dp { "dp_rewrite" } else { "pup_rewrite" }, qi, res.as_ref().ok()));
                fault(ctx, "background_rewrite");
                if res.is_err() {
                    probe(ctx, "rewrite_panic");
                }
            }
        }
        Op::Burn(prefix, n) => {
            let mut got = vec![];
            for _ in 0..*n {
                got.push(namer::new_id(prefix.as_str()));
            }
            fault(ctx, "counter_burn");
            event(ctx, format!("{} burn {} x{}", who, prefix, n));
            ctx.shared.lock().unwrap().ids.entry(prefix.clone()).or_default().extend(got);
        }
        Op::BuildUnnamed => {
            let t: Relation = Relation::table().schema(vec![("a", DataType::float()), ("b", DataType::integer())].into_iter().collect::<qrlew::relation::Schema>()).size(10).build();
            let v: Relation = Relation::values().values([1.0, 2.0]).build();
            fault(ctx, "unnamed_build");
            event(ctx, format!("{} build_unnamed {} {}", who, t.name().len(), v.name().len()));
        }
        Op::Reset => {
            namer::reset();
            fault(ctx, "counter_reset");
            event(ctx, format!("{} reset", who));
            ctx.shared.lock().unwrap().ids.clear();
        }
        Op::Spawn(inner) => {
            let c2 = ctx.clone();
            let inner = (**inner).clone();
            let name = format!("{}+cold", who);
            fault(ctx, "cold_thread");
            let h = shuttle::thread::spawn(move || exec_op(&c2, &name, &inner));
            let _ = h.join();
        }
        Op::NameBurst(start, n, stride) => {
            let table = ctx.refs.first().map(|r| r.probe_names.clone()).unwrap_or_default();
            let mut h = 0u64;
            let mut reported = false;
            for i in 0..*n as u64 {
                let v = (start + i * stride) % workload::NAME_PROBES;
                let name = probe_name(v);
                h = hash64(&format!("{}{}", h, name));
                if !reported && !table.is_empty() && table[v as usize] != name {
                    reported = true;
                    violation(
                        ctx,
                        "name_depends_on_history",
                        "unclassified",
                        format!("{}: the content-derived name of one and the same content is `{}` here and `{}` in the quiescent pass", who, name, table[v as usize]),
                        json!({"content": v, "here": name, "quiescent": table[v as usize]}),
                    );
                }
            }
            fault(ctx, "name_burst");
            event(ctx, format!("{} name_burst {}+{}x{} h={:016x}", who, start, n, stride, h));
        }
        Op::Abandon(qi, after) => {
            let q = ctx.wl.queries[*qi].clone();
            let rel = ctx.relations.clone();
            qrlew::verif_abandon_after(*after);
            let res = std::panic::catch_unwind(std::panic::AssertUnwindSafe(move || compile(&rel, &q).0.ok));
            qrlew::verif_abandon_after(0);
            if res.is_err() {
                fault(ctx, "caller_abandoned");
            }
            event(ctx, format!("{} abandon q{} after {} -> {}", who, qi, after, if res.is_err() { "abandoned" } else { "completed" }));
        }
    }
}

/// What a relation computes, independent of how many renaming maps carry it: multiset of join
/// operators, set operators, limits / offsets, sort directions, aggregate kinds, scalar functions
/// and literal values over all nodes. Re-parsing rendered SQL adds projection maps (only column
/// references) but must preserve this multiset.
fn semantic_tokens(root: &Relation) -> BTreeMap<String, usize> {
    fn expr_tokens(e: &qrlew::expr::Expr, out: &mut BTreeMap<String, usize>, top: bool) {
        use qrlew::expr::function::Function as F;
        use qrlew::expr::Expr;
        // `a / b` is built as case(b >= eps or b <= -eps, a / b, 0), and every re-parse of the
        // rendered text wraps the division once more: count a division, however guarded, once
        fn is_guard(e: &Expr) -> Option<Expr> {
            let Expr::Function(f) = e else { return None };
            let args = f.arguments();
            if !matches!(f.function(), F::Case) || args.len() != 3 {
                return None;
            }
            let num = |e: &Expr| -> Option<f64> {
                match e {
                    Expr::Value(v) => v.to_string().parse::<f64>().ok(),
                    _ => None,
                }
            };
            let tiny = |e: &Expr| -> bool {
                let x = match e {
                    Expr::Function(o) if matches!(o.function(), F::Opposite) => num(&o.arguments()[0]),
                    other => num(other),
                };
                x.map_or(false, |x| x != 0.0 && x.abs() < 1e-300)
            };
            let side = |e: &Expr, ge: bool| -> bool {
                match e {
                    Expr::Function(g) => {
                        let ga = g.arguments();
                        (if ge { matches!(g.function(), F::GtEq) } else { matches!(g.function(), F::LtEq) }) && ga.len() == 2 && tiny(&ga[1])
                    }
                    _ => false,
                }
            };
            let cond = match &args[0] {
                Expr::Function(c) if matches!(c.function(), F::Or) => {
                    let ca = c.arguments();
                    ca.len() == 2 && side(&ca[0], true) && side(&ca[1], false)
                }
                _ => false,
            };
            if num(&args[2]) == Some(0.0) && cond {
                Some(args[1].clone())
            } else {
                None
            }
        }
        // a CASE without ELSE holds the unit value (printed NULL); its rendering `ELSE NULL`
        // re-parses as the empty optional (printed none): the same SQL NULL
        fn lit(v: &qrlew::data_type::value::Value) -> String {
            let t = format!("{}", v);
            if t == "NULL" || t == "none" { "null".to_string() } else { t }
        }
        fn neg(v: &qrlew::data_type::value::Value) -> Option<String> {
            let t = format!("{}", v);
            match t.strip_prefix('-') {
                Some(rest) if t.parse::<f64>().is_ok() => Some(rest.to_string()),
                _ => None,
            }
        }
        fn strip(e: &Expr) -> Expr {
            let mut inner = e.clone();
            while let Some(x) = is_guard(&inner) {
                inner = x;
            }
            let e = if matches!(&inner, Expr::Function(f) if matches!(f.function(), F::Divide)) { inner } else { e.clone() };
            // `x IS TRUE` is parsed as is_bool(cast(x as boolean), true) and rendered with the
            // cast: every re-parse adds one more (idempotent) cast of the same kind
            if let Expr::Function(f) = &e {
                let name = format!("{:?}", f.function());
                if name.starts_with("CastAs") {
                    if let Some(Expr::Function(g)) = f.arguments().first() {
                        if format!("{:?}", g.function()) == name {
                            return strip(&f.arguments()[0]);
                        }
                    }
                }
            }
            e
        }
        // the whole tree of one expression, columns anonymous (precedence and argument order)
        fn shape(e: &Expr) -> String {
            match &strip(e) {
                Expr::Column(_) => "$".to_string(),
                // a negative literal (built by the compiler) is rendered `-2` and read back as -(2)
                Expr::Value(v) if neg(v).is_some() => format!("Opposite({})", neg(v).unwrap()),
                Expr::Value(v) => lit(v),
                Expr::Function(f) => {
                    let name = match f.function() {
                        F::Random(_) => "Random".to_string(),
                        other => format!("{:?}", other),
                    };
                    format!("{}({})", name, f.arguments().iter().map(shape).collect::<Vec<_>>().join(","))
                }
                Expr::Aggregate(a) => format!("{:?}[{}]", a.aggregate(), shape(a.argument())),
                Expr::Struct(_) => "struct".to_string(),
            }
        }
        if top && !matches!(e, Expr::Column(_)) {
            *out.entry(format!("expr:{}", shape(e))).or_default() += 1;
        }
        let stripped = strip(e);
        let e = &stripped;
        match e {
            Expr::Column(_) => {}
            Expr::Value(v) if neg(v).is_some() => {
                *out.entry("fn:Opposite".to_string()).or_default() += 1;
                *out.entry(format!("lit:{}", neg(v).unwrap())).or_default() += 1;
            }
            Expr::Value(v) => {
                *out.entry(format!("lit:{}", lit(v))).or_default() += 1;
            }
            Expr::Function(f) => {
                let name = match f.function() {
                    qrlew::expr::function::Function::Random(_) => "Random".to_string(),
                    other => format!("{:?}", other),
                };
                *out.entry(format!("fn:{}", name)).or_default() += 1;
                for a in f.arguments().iter() {
                    expr_tokens(a, out, false);
                }
            }
            Expr::Aggregate(a) => {
                *out.entry(format!("agg:{:?}", a.aggregate())).or_default() += 1;
                expr_tokens(a.argument(), out, false);
            }
            Expr::Struct(_) => {}
        }
    }
    let mut out = BTreeMap::new();
    let mut seen: Vec<&Relation> = vec![];
    let mut stack = vec![root];
    while let Some(r) = stack.pop() {
        if seen.iter().any(|s| s.name() == r.name() && *s == r) {
            continue;
        }
        seen.push(r);
        match r {
            Relation::Table(t) => {
                *out.entry(format!("table:{}", t.path())).or_default() += 1;
            }
            Relation::Map(m) => {
                for (_, e) in m.field_exprs() {
                    expr_tokens(e, &mut out, true);
                }
                if let Some(f) = m.filter() {
                    expr_tokens(f, &mut out, true);
                }
                for o in m.order_by() {
                    *out.entry(format!("order:{}", if o.asc { "asc" } else { "desc" })).or_default() += 1;
                    expr_tokens(&o.expr, &mut out, true);
                }
                // the sort keys as a sequence (their order matters), by output position of the key
                // column where it is one, and what else the same node does: a filter evaluated
                // before or after a LIMIT, a sort above or below an OFFSET are different queries
                if !m.order_by().is_empty() {
                    let pos = |e: &qrlew::expr::Expr| -> String {
                        m.field_exprs().iter().position(|(_, fe)| *fe == e).map_or("?".to_string(), |i| i.to_string())
                    };
                    let seq: Vec<String> = m.order_by().iter().map(|o| format!("{}{}", pos(&o.expr), if o.asc { "+" } else { "-" })).collect();
                    *out.entry(format!("orderseq:{}", seq.join(","))).or_default() += 1;
                }
                if m.filter().is_some() || !m.order_by().is_empty() || m.offset().is_some() {
                    *out.entry(format!("mapsig:f{}o{}l{}s{}", m.filter().is_some() as u8, m.order_by().len(), m.limit().is_some() as u8, m.offset().is_some() as u8)).or_default() += 1;
                }
                if let Some(l) = m.limit() {
                    *out.entry(format!("limit:{}", l)).or_default() += 1;
                }
                if let Some(o) = m.offset() {
                    *out.entry(format!("offset:{}", o)).or_default() += 1;
                }
            }
            Relation::Reduce(red) => {
                for (_, a) in red.field_aggregates() {
                    *out.entry(format!("agg:{:?}", a.aggregate())).or_default() += 1;
                }
                *out.entry(format!("group_by:{}", red.group_by().len())).or_default() += 1;
            }
            Relation::Join(j) => {
                *out.entry(format!("join:{}", j.operator())).or_default() += 1;
            }
            Relation::Set(st) => {
                *out.entry(format!("set:{:?}:{:?}", st.operator(), st.quantifier())).or_default() += 1;
            }
            Relation::Values(_) => {
                *out.entry("values".into()).or_default() += 1;
            }
        }
        for i in r.inputs() {
            stack.push(i);
        }
    }
    out
}

/// Two different nodes of one relation carry the same generated name (the content hash is cut to
/// four base-36 characters): the rendered text declares two CTEs of that name and every
/// reference binds to the first. Returns the shared name.
fn name_collision(root: &Relation) -> Option<String> {
    let mut seen: Vec<&Relation> = vec![];
    let mut stack = vec![root];
    while let Some(r) = stack.pop() {
        if let Some(other) = seen.iter().find(|s| s.name() == r.name()) {
            if *other != r {
                // the known finding is the truncation to four characters: the two nodes then differ in
                // their full 64-bit hash. Two different nodes with EQUAL full hashes (fixed-key
                // SipHash over the derived Hash of the whole node; chance 2^-64) mean the hash does
                // not see the difference - another defect, reported under its own class
                let full = |x: &Relation| {
                    use std::hash::{Hash, Hasher};
                    let mut h = std::collections::hash_map::DefaultHasher::new();
                    x.hash(&mut h);
                    h.finish()
                };
                if full(other) == full(r) {
                    return Some(format!("!{}", r.name()));
                }
                return Some(r.name().to_string());
            }
            continue;
        }
        seen.push(r);
        for i in r.inputs() {
            stack.push(i);
        }
    }
    None
}

/// A failure of the rendering fixpoint. For the relation the DP compiler returns it is counted,
/// not reported: that text is compiler output, not a supported query of the parser (VALUES, integer
/// divisions over ranges with zero, repeated column names), and the statement is about relations
/// that come from parsing.
fn report_fixpoint(who: &str, ctx: &Ctx, invariant: &str, class: &str, detail: String, witness: serde_json::Value) {
    if who.ends_with("-dp") {
        probe(ctx, &format!("dp_rendering_{}", invariant));
        if std::env::var("VERIF_DEBUG").is_ok() {
            eprintln!("DP-FIXPOINT {} :: {}", invariant, detail.chars().take(300).collect::<String>());
        }
    } else {
        violation(ctx, invariant, class, detail, witness);
    }
}

#[allow(clippy::too_many_arguments)]
fn reparse_check(ctx: &Ctx, who: &str, qi: usize, r: &Relation, text: &str, c2: &Compiled, r2: &Option<Relation>, semantic: bool) {
    let q = &ctx.wl.queries[qi];
    let collision = name_collision(r);
    if collision.is_some() {
        probe(ctx, "content_name_collision_in_one_relation");
    }
    // class of every fixpoint failure of such a relation (known finding content_name_collision)
    let fix_class = match &collision {
        Some(n) if n.starts_with('!') => "content_hash_blind_to_a_difference",
        Some(_) => "content_name_collision",
        None => "unclassified",
    };
    if !c2.ok {
        let class = if has_set_op(q) && c2.err.contains("Unknown table") { "set_operation_alias" } else { fix_class };
        report_fixpoint(who, 
            ctx,
            "reparse_fails",
            class,
            format!("{}: the SQL rendered for `{}` is rejected by qrlew's own parser: {}", who, q, c2.err),
            json!({"query": q, "rendered": text.chars().take(400).collect::<String>(), "error": c2.err}),
        );
        return;
    }
    let r2 = r2.as_ref().unwrap();
    let (s1, s2) = (schema_string(r), schema_string(r2));
    if s1 != s2 {
        report_fixpoint(who, 
            ctx,
            "reparse_schema",
            fix_class,
            format!("{}: re-parsing the SQL rendered for `{}` gives another output schema", who, q),
            json!({"query": q, "schema": s1, "reparsed_schema": s2, "rendered": text.chars().take(1200).collect::<String>()}),
        );
        return;
    }
    if semantic {
        // structure: the re-parsed relation is made of the same operators, functions and literals
        let (t1, t2) = (semantic_tokens(r), semantic_tokens(r2));
        // tolerated: LIMIT is rendered at two levels (idempotent), so only its presence counts
        let same = t1.keys().chain(t2.keys()).all(|k| {
            let (a, b) = (*t1.get(k).unwrap_or(&0), *t2.get(k).unwrap_or(&0));
            // ... and for a DP-compiled relation every token counts by presence: the parser shares
            // textually identical sub-queries (two independent RANDOM() maps become one node)
            if k.starts_with("limit:") || who.ends_with("-dp") {
                (a > 0) == (b > 0)
            } else {
                a == b
            }
        });
        if !same {
            let diff: Vec<String> = t1.keys().chain(t2.keys()).filter(|k| t1.get(*k) != t2.get(*k)).map(|k| format!("{} {}->{}", k, t1.get(k).unwrap_or(&0), t2.get(k).unwrap_or(&0))).collect::<std::collections::BTreeSet<_>>().into_iter().take(14).collect();
            probe(ctx, "structure_differs_after_reparse");
            report_fixpoint(who, 
                ctx,
                "reparse_structure",
                fix_class,
                format!("{}: re-parsing the SQL rendered for `{}` gives a relation that computes something else (operators / literals / functions that differ: {:?})", who, q, diff),
                json!({"query": q, "rendered": text.chars().take(if std::env::var("VERIF_DEBUG").is_ok() { 20000 } else { 400 }).collect::<String>(), "differs": diff}),
            );
            return;
        } else {
            probe(ctx, "structure_same_after_reparse");
        }
    }
    if semantic && !ctx.refs[qi].has_random && !who.ends_with("-dp") {
        let lq = q.to_lowercase();
        // LIMIT / OFFSET select rows by order: comparable only under a total order (ORDER BY id)
        if (lq.contains(" limit ") || lq.contains(" offset ")) && !lq.contains("order by id") {
            probe(ctx, "semantic_skipped_limit");
            return;
        }
        // execute both texts on the simulated engine (Sim-B's) over the instance
        let tabs: Vec<&TableSpec> = ctx.wl.sc.tables.iter().chain(ctx.wl.sc.synthetic.iter()).collect();
        let plan = DrawPlan::neutral(1).with_cap(DrawMode::Inc).with_row_id(DrawMode::Inc);
        if let Ok(mut eng) = Engine::new(&tabs) {
            // the engine's clock is the simulator's: one fixed instant for both executions
            let frozen = |t: String| -> String {
                if std::env::var("VERIF_DEBUG_CLOCK").is_ok() && t.contains("CURRENT_") {
                    eprintln!("CLOCK {}", t);
                }
                t.replace("CURRENT_TIMESTAMP()", "'2026-09-25 12:00:00'")
                    .replace("CURRENT_TIMESTAMP", "'2026-09-25 12:00:00'")
                    .replace("CURRENT_DATE()", "'2026-09-25'")
                    .replace("CURRENT_DATE", "'2026-09-25'")
                    .replace("CURRENT_TIME()", "'12:00:00'")
                    .replace("CURRENT_TIME", "'12:00:00'")
            };
            let a = eng.query(&frozen(render_sim(r)), &plan);
            let b = eng.query(&frozen(render_sim(r2)), &plan);
            match (a, b) {
                (Ok((ra, _)), Ok((rb, _))) => {
                    // multiset equality with a floating-point tolerance (aggregates are summed in
                    // a different row order by the two texts)
                    let cell_eq = |a: &simcommon::scenario::Cell, b: &simcommon::scenario::Cell| -> bool {
                        use simcommon::scenario::Cell as C;
                        match (a, b) {
                            (C::Float(_), _) | (_, C::Float(_)) => match (a.as_f64(), b.as_f64()) {
                                (Some(x), Some(y)) => (x - y).abs() <= 1e-9 * (1.0 + x.abs().max(y.abs())),
                                _ => false,
                            },
                            _ => a.key() == b.key(),
                        }
                    };
                    let same_rows = |ra: &simcommon::engine::ResultSet, rb: &simcommon::engine::ResultSet| -> bool {
                        if ra.rows.len() != rb.rows.len() {
                            return false;
                        }
                        let mut used = vec![false; rb.rows.len()];
                        for x in &ra.rows {
                            let mut found = false;
                            for (j, y) in rb.rows.iter().enumerate() {
                                if !used[j] && x.len() == y.len() && x.iter().zip(y.iter()).all(|(a, b)| cell_eq(a, b)) {
                                    used[j] = true;
                                    found = true;
                                    break;
                                }
                            }
                            if !found {
                                return false;
                            }
                        }
                        true
                    };
                    probe(ctx, "semantic_compared");
                    if !same_rows(&ra, &rb) && std::env::var("VERIF_DEBUG").is_ok() {
                        eprintln!("SEMANTIC A: {:?}\nSEMANTIC B: {:?}\nSQL A: {}\nSQL B: {}", ra.rows, rb.rows, render_sim(r), render_sim(r2));
                    }
                    if !same_rows(&ra, &rb) {
                        report_fixpoint(who, 
                            ctx,
                            "reparse_semantics",
                            fix_class,
                            format!("{}: the relation of `{}` and the relation re-parsed from its rendering return different rows on the same instance", who, q),
                            json!({"query": q, "rows": ra.rows.len(), "reparsed_rows": rb.rows.len()}),
                        );
                    }
                }
                (a, b) => {
                    probe(ctx, "semantic_skipped_engine_gap");
                    if std::env::var("VERIF_DEBUG").is_ok() {
                        eprintln!("ENGINE-GAP-SQL {}", render_sim(r));
                        eprintln!("ENGINE-GAP {} :: {:?} / {:?}", q, a.err().map(|e| e.chars().take(120).collect::<String>()), b.err().map(|e| e.chars().take(120).collect::<String>()));
                    }
                }
            }
        }
    }
}

/// Quiescent single-threaded pass right after reset(): the reference table, plus the
/// schedule-independent part of the fixpoint sentence (re-parse, schema, semantics).
type RefOut = (qrlew::hierarchy::Hierarchy<Arc<Relation>>, Vec<Reference>, Vec<Violation>, BTreeMap<String, u64>);

fn reference_pass(wl: &Workload, alt: bool) -> RefOut {
    let out: Arc<Mutex<Option<RefOut>>> = Arc::new(Mutex::new(None));
    let out2 = out.clone();
    let mut wl2 = wl.clone();
    if alt {
        // the second catalogue gets its own quiescent pass (a separate simulated execution)
        wl2.sc = wl2.sc_alt.clone().expect("alt catalogue");
    }
    let mut cfg = shuttle::Config::new();
    cfg.stack_size = 256 << 20;
    cfg.failure_persistence = shuttle::FailurePersistence::None;
    let runner = shuttle::Runner::new(shuttle::scheduler::RandomScheduler::new_from_seed(1, 1), cfg);
    let wl_err = wl.clone();
    let ran = std::panic::catch_unwind(std::panic::AssertUnwindSafe(move || runner.run(move || {
        namer::reset();
        // every call into qrlew happens inside a simulated execution (its lock and preemption
        // points belong to the scheduler), the catalogue construction included
        let rel2 = wl2.sc.relations();
        let mut refs = vec![];
        for q in &wl2.queries {
            let (c, r) = compile(&rel2, q);
            refs.push(Reference {
                has_random: has_random(q),
                canon_display: canonicalise(&c.display),
                canon_sql: canonicalise(&c.sql),
                c,
                dialects: r.as_ref().map(render_dialects).unwrap_or_default(),
                relation: r,
                probe_names: vec![],
            });
        }
        if !alt && has_name_burst(&wl2) && !refs.is_empty() {
            refs[0].probe_names = (0..workload::NAME_PROBES).map(probe_name).collect();
        }
        let ctx = Ctx { wl: wl2.clone(), relations: rel2.clone(), refs: refs.clone(), relations_alt: None, refs_alt: vec![], shared: Arc::new(Mutex::new(Shared::default())) };
        // determinism inside the quiescent pass itself: a second parse of every query
        for (qi, q) in wl2.queries.iter().enumerate() {
            let (c, r) = compile(&rel2, q);
            check_against_ref(&ctx, "reference-second-pass", qi, &c, &r);
            if let Some(r) = &refs[qi].relation {
                let text = ast::Query::from(r).to_string();
                let (c2, r2) = compile(&rel2, &text);
                reparse_check(&ctx, "reference", qi, r, &text, &c2, &r2, true);
                // the same fixpoint for the relation the DP compiler returns for this query (its
                // rendering is what gets executed): schema and structure, not executed here
                if qi == 0 && !refs[qi].has_random {
                    let (sc, rel) = (wl2.sc.clone(), rel2.clone());
                    let rr = r.clone();
                    let dp = std::panic::catch_unwind(std::panic::AssertUnwindSafe(move || {
                        rr.rewrite_with_differential_privacy(&rel, sc.synthetic_data(), sc.privacy_unit(), sc.params.dp()).ok().map(|x| x.relation().clone())
                    }));
                    // a VALUES relation (public key values) is not in the parser's language: such a
                    // rendering is not a supported query
                    fn has_values(r: &Relation) -> bool {
                        matches!(r, Relation::Values(_)) || r.inputs().iter().any(|i| has_values(i))
                    }
                    if let Ok(Some(dp_rel)) = dp {
                        if has_values(&dp_rel) {
                            probe(&ctx, "dp_rendering_has_values");
                            continue;
                        }
                        let dp_text = ast::Query::from(&dp_rel).to_string();
                        let (c3, r3) = compile(&rel2, &dp_text);
                        probe(&ctx, "dp_rendering_reparsed");
                        reparse_check(&ctx, "reference-dp", qi, &dp_rel, &dp_text, &c3, &r3, true);
                    }
                }
                // rendering is a function of (relation, translator), whatever was rendered before:
                // the same relation through the harness's own translator (which marks every CTE
                // MATERIALIZED, the stock one never does) right after the stock rendering
                let sim_text = render_sim(r);
                if text.contains(" AS (") && (!sim_text.contains("MATERIALIZED") || text.contains("MATERIALIZED")) {
                    violation(
                        &ctx,
                        "render_depends_on_earlier_render",
                        "unclassified",
                        format!("reference: rendering the relation of `{}` through a second translator right after the stock rendering does not give that translator's text", q),
                        json!({"query": q, "stock": text.chars().take(200).collect::<String>(), "second": sim_text.chars().take(200).collect::<String>()}),
                    );
                }
            }
        }
        let sh = ctx.shared.lock().unwrap();
        *out2.lock().unwrap() = Some((rel2.clone(), refs, sh.violations.clone(), sh.probes.clone()));
    })));
    let got = out.lock().unwrap().take();
    match (ran, got) {
        (Ok(_), Some(r)) => r,
        (ran, _) => {
            // the quiescent pass itself died outside the per-call catch (a panic while unwinding
            // from a caught one, a lock taken in a destructor after the pass): no reference exists
            let msg = match ran {
                Err(p) => p.downcast_ref::<String>().cloned().or_else(|| p.downcast_ref::<&str>().map(|s| s.to_string())).unwrap_or_else(|| "<panic>".into()),
                Ok(_) => "no result".into(),
            };
            let v = Violation {
                property: "C16".into(),
                invariant: "no_progress_or_panic".into(),
                class: "unclassified".into(),
                detail: format!("the quiescent single-threaded pass over the workload's queries did not run to completion: {}", first_line(&msg)),
                witness: json!({"message": msg.chars().take(600).collect::<String>(), "queries": wl_err.queries}),
            };
            (qrlew::hierarchy::Hierarchy::empty(), vec![], vec![v], BTreeMap::new())
        }
    }
}

#[derive(Serialize, Deserialize, Clone, Debug)]
pub struct RunRecord {
    pub seed: u64,
    pub run: u64,
    pub property: String,
    pub verdict: serde_json::Value,
    pub shape: Option<String>,
    pub tags: Vec<String>,
    pub stats: serde_json::Value,
    pub digest: String,
    /// digest of the reference table (hash-seed sweep compares these across hash seeds)
    pub ref_digest: String,
    pub notes: Vec<String>,
    pub workload: Option<Workload>,
}

fn run_one(wl: Workload, keep: bool) -> RunRecord {
    std::env::set_var("VERIF_HASH_SEED", wl.sc.compile.hash_seed.to_string());
    simcommon::new_hash_epoch();
    let handle = std::thread::Builder::new()
        .stack_size(512 << 20)
        .spawn(move || {
            let (relations, refs, mut violations, mut probes) = reference_pass(&wl, false);
            let (relations_alt, refs_alt) = if wl.sc_alt.is_some() {
                let (ra, fa, va, pa) = reference_pass(&wl, true);
                violations.extend(va);
                for (k, v) in pa {
                    *probes.entry(k).or_default() += v;
                }
                (Some(ra), fa)
            } else {
                (None, vec![])
            };
            let ref_digest = {
                let mut h = String::new();
                for r in refs.iter().chain(refs_alt.iter()) {
                    h.push_str(&format!("{}|{}|{}|{}\n", r.c.ok, r.canon_display, r.canon_sql, canonicalise(&r.c.schema)));
                }
                format!("{:016x}", hash64(&h))
            };
            // without a reference (the quiescent pass died) there is nothing to compare a history with
            let mut wl = wl;
            if refs.len() != wl.queries.len() || (wl.sc_alt.is_some() && refs_alt.len() != wl.queries.len()) {
                wl.threads = vec![];
            }
            let shared = Arc::new(Mutex::new(Shared::default()));
            let ctx = Arc::new(Ctx { wl: wl.clone(), relations, refs, relations_alt, refs_alt, shared: shared.clone() });
            let mut cfg = shuttle::Config::new();
            cfg.stack_size = 256 << 20;
            cfg.failure_persistence = shuttle::FailurePersistence::None;
            cfg.max_steps = shuttle::MaxSteps::FailAfter(5_000_000);
            let ctx2 = ctx.clone();
            let body = move || {
                namer::reset();
                let mut hs = vec![];
                for (ti, ops) in ctx2.wl.threads.iter().enumerate() {
                    let c3 = ctx2.clone();
                    let ops = ops.clone();
                    hs.push(shuttle::thread::spawn(move || {
                        let who = format!("t{}", ti);
                        for op in &ops {
                            exec_op(&c3, &who, op);
                        }
                    }));
                }
                for h in hs {
                    h.join().unwrap();
                }
            };
            let res = std::panic::catch_unwind(std::panic::AssertUnwindSafe(|| match &wl.sched {
                Sched::Random(s) => {
                    shuttle::Runner::new(shuttle::scheduler::RandomScheduler::new_from_seed(*s, 1), cfg).run(body);
                }
                Sched::Pct(s, d) => {
                    shuttle::Runner::new(shuttle::scheduler::PctScheduler::new_from_seed(*s, *d, 1), cfg).run(body);
                }
            }));
            let sh = shared.lock().unwrap();
            violations.extend(sh.violations.clone());
            if let Err(p) = res {
                let msg = if let Some(s) = p.downcast_ref::<String>() { s.clone() } else if let Some(s) = p.downcast_ref::<&str>() { s.to_string() } else { "<panic>".into() };
                violations.push(Violation {
                    property: "C16".into(),
                    invariant: "no_progress_or_panic".into(),
                    class: "unclassified".into(),
                    detail: format!("the concurrent history did not run to completion under the scheduler: {}", first_line(&msg)),
                    witness: json!({"message": msg.chars().take(600).collect::<String>()}),
                });
            }
            for (k, v) in &sh.probes {
                *probes.entry(k.clone()).or_default() += v;
            }
            // probe: ids handed out per prefix since the last reset are distinct
            for (_, ids) in sh.ids.iter() {
                let mut s = ids.clone();
                s.sort();
                s.dedup();
                if s.len() != ids.len() {
                    *probes.entry("duplicate_ids_between_resets".into()).or_default() += 1;
                }
            }
            let mut log = vec![format!("run seed={} run={}", wl.seed, wl.run), format!("ref {}", ref_digest)];
            log.extend(sh.events.iter().cloned());
            let sched_hash = hash64(&sh.events.iter().map(|e| e.split(' ').next().unwrap_or("").to_string()).collect::<Vec<_>>().join(""));
            let n_ops: usize = wl.threads.iter().map(|t| t.len()).sum();
            let mut faults = sh.faults.clone();
            *faults.entry(format!("scheduler_{}", match wl.sched { Sched::Random(_) => "random", Sched::Pct(_, _) => "pct" })).or_default() += 1;
            *faults.entry("hash_seed".into()).or_default() += 1;
            let shape = format!(
                "k{}|{}|{}|q{}",
                wl.threads.len(),
                match wl.sched { Sched::Random(_) => "random", Sched::Pct(_, _) => "pct" },
                {
                    let mut kinds: Vec<&str> = wl.threads.iter().flatten().map(|o| o.kind()).collect();
                    kinds.sort();
                    kinds.dedup();
                    kinds.join(",")
                },
                {
                    // which kinds of query the history compiles
                    let mut f = vec![];
                    if wl.queries.iter().any(|q| has_random(q)) { f.push("rnd"); }
                    if wl.queries.iter().any(|q| has_set_op(q)) { f.push("set"); }
                    if wl.queries.iter().any(|q| q.to_lowercase().contains(" join ")) { f.push("join"); }
                    if wl.queries.iter().any(|q| q.to_lowercase().starts_with("with ")) { f.push("cte"); }
                    f.join("+")
                }
            );
            let verdict = if violations.is_empty() { json!("Ok") } else { json!({"Violations": violations}) };
            let is_ok = violations.is_empty();
            RunRecord {
                seed: wl.seed,
                run: wl.run,
                property: "C16".into(),
                verdict,
                shape: Some(shape),
                tags: wl.sc.tags.clone(),
                stats: json!({"statements": 0, "draws": 0, "executions": 1, "faults": faults, "probes": probes, "ops": n_ops, "events": sh.events.len(), "interleaving": format!("{:016x}", sched_hash), "queries": wl.queries.len()}),
                digest: format!("{:016x}", hash64(&log.join("\n"))),
                ref_digest,
                notes: if is_ok { vec![] } else { log },
                workload: if keep || !is_ok { Some(wl) } else { None },
            }
        })
        .unwrap();
    handle.join().expect("run thread panicked (harness error)")
}

fn single_threaded(mut wl: Workload, salt: u64) -> Workload {
    if salt != 0 {
        wl.sc.compile.hash_seed ^= salt.wrapping_mul(0x9e3779b97f4a7c15) >> 1;
    }
    let all: Vec<Op> = wl.threads.iter().flatten().cloned().collect();
    wl.threads = vec![all];
    wl
}

/// Invariant 4 as a replayable check: the single-threaded history under several hash seeds must
/// give identical logs and reference tables.
fn sweep_check(wl: &Workload, salts: &[u64]) -> RunRecord {
    let mut recs = vec![];
    for s in salts {
        recs.push(run_one(single_threaded(wl.clone(), *s), true));
    }
    let mut rec = recs[0].clone();
    let digests: std::collections::BTreeSet<String> = recs.iter().map(|r| r.digest.clone()).collect();
    let refs: std::collections::BTreeSet<String> = recs.iter().map(|r| r.ref_digest.clone()).collect();
    if digests.len() > 1 || refs.len() > 1 {
        let v = Violation {
            property: "C16".into(),
            invariant: "hash_seed_dependence".into(),
            class: "unclassified".into(),
            detail: format!("the single-threaded history gives different Parse/Render logs or reference tables under hash seeds {:?}: log digests {:?}, reference digests {:?}", salts, digests, refs),
            witness: json!({"salts": salts}),
        };
        let mut vs: Vec<serde_json::Value> = rec.verdict.get("Violations").and_then(|x| x.as_array()).cloned().unwrap_or_default();
        vs.push(serde_json::to_value(&v).unwrap());
        rec.verdict = json!({"Violations": vs});
    }
    rec.workload = Some(wl.clone());
    rec
}

fn arg<'a>(args: &'a [String], name: &str) -> Option<&'a str> {
    args.iter().position(|a| a == name).and_then(|i| args.get(i + 1)).map(|s| s.as_str())
}

fn main() {
    let args: Vec<String> = std::env::args().collect();
    std::panic::set_hook(Box::new(|_| {}));
    match args.get(1).map(|s| s.as_str()) {
        Some("run") => {
            let seed: u64 = arg(&args, "--seed").unwrap_or("1").parse().unwrap();
            let from: u64 = arg(&args, "--from").unwrap_or("0").parse().unwrap();
            let to: u64 = arg(&args, "--to").unwrap_or("10").parse().unwrap();
            let stride: u64 = arg(&args, "--stride").unwrap_or("1").parse().unwrap();
            let offset: u64 = arg(&args, "--offset").unwrap_or("0").parse().unwrap();
            let samples: u64 = arg(&args, "--samples").unwrap_or("1").parse().unwrap();
            let hash_salt: u64 = arg(&args, "--hash-salt").unwrap_or("0").parse().unwrap();
            let depth: u32 = arg(&args, "--depth").unwrap_or("0").parse().unwrap();
            let single: bool = args.iter().any(|a| a == "--single-thread");
            let deadline: Option<f64> = arg(&args, "--deadline-s").map(|s| s.parse().unwrap());
            // self-test: execute every run `repeat` times in a row in this process
            let repeat: u64 = arg(&args, "--repeat").unwrap_or("1").parse().unwrap();
            let mut rep = 0u64;
            let out_path = arg(&args, "--out").expect("--out");
            let mut out = std::io::BufWriter::new(std::fs::File::create(out_path).unwrap());
            let start = std::time::Instant::now();
            let mut kept = 0;
            let mut i = from + offset;
            while i < to {
                if let Some(d) = deadline {
                    if start.elapsed().as_secs_f64() > d {
                        break;
                    }
                }
                let mut wl = workload::generate(seed, i, depth);
                if single {
                    // the hash-seed sweep replays the history single-threaded
                    wl = single_threaded(wl, hash_salt);
                } else if hash_salt != 0 {
                    wl.sc.compile.hash_seed ^= hash_salt.wrapping_mul(0x9e3779b97f4a7c15) >> 1;
                }
                let keep = kept < samples;
                let rec = run_one(wl, keep);
                if rec.workload.is_some() && rec.verdict == json!("Ok") {
                    kept += 1;
                }
                serde_json::to_writer(&mut out, &rec).unwrap();
                out.write_all(b"\n").unwrap();
                out.flush().unwrap();
                rep += 1;
                if rep >= repeat {
                    rep = 0;
                    i += stride;
                }
            }
            out.flush().unwrap();
        }
        Some("replay") => {
            let file = arg(&args, "--file").expect("--file");
            let v: serde_json::Value = serde_json::from_str(&std::fs::read_to_string(file).unwrap()).unwrap();
            let wl: Workload = serde_json::from_value(v["workload"].clone()).expect("workload");
            let rec = match v.get("hash_sweep").and_then(|x| x.as_array()) {
                Some(salts) => sweep_check(&wl, &salts.iter().filter_map(|x| x.as_u64()).collect::<Vec<_>>()),
                None => run_one(wl, true),
            };
            println!("{}", serde_json::to_string(&rec).unwrap());
            if rec.verdict != json!("Ok") {
                std::process::exit(1);
            }
        }
        Some("minimise") => {
            let file = arg(&args, "--file").expect("--file");
            let out = arg(&args, "--out").expect("--out");
            let v: serde_json::Value = serde_json::from_str(&std::fs::read_to_string(file).unwrap()).unwrap();
            let wl: Workload = serde_json::from_value(v["workload"].clone()).expect("workload");
            let invariant = v["invariant"].as_str().unwrap().to_string();
            let class = v["class"].as_str().unwrap().to_string();
            let (small, tried) = workload::minimise(wl, &invariant, &class, |w| run_one(w, true));
            let rec = run_one(small, true);
            let mut o = serde_json::to_value(&rec).unwrap();
            o["invariant"] = json!(invariant);
            o["class"] = json!(class);
            o["minimise_candidates"] = json!(tried);
            std::fs::write(out, serde_json::to_string_pretty(&o).unwrap()).unwrap();
        }
        Some("corpus") => {
            // every corpus query once against the catalogue of (seed, run): which are accepted,
            // and what the quiescent checks say about each (harness maintenance aid)
            let seed: u64 = arg(&args, "--seed").unwrap_or("1").parse().unwrap();
            let run: u64 = arg(&args, "--run").unwrap_or("0").parse().unwrap();
            let mut wl = workload::generate(seed, run, 0);
            wl.queries = workload::CORPUS.iter().map(|s| s.to_string()).collect();
            wl.threads = vec![];
            wl.sc_alt = None;
            std::env::set_var("VERIF_HASH_SEED", wl.sc.compile.hash_seed.to_string());
            simcommon::new_hash_epoch();
            let h = std::thread::Builder::new().stack_size(512 << 20).spawn(move || {
                let (_, refs, violations, probes) = reference_pass(&wl, false);
                for (q, r) in wl.queries.iter().zip(refs.iter()) {
                    println!("{} {} {}", if r.c.ok { "ok  " } else { "ERR " }, q, if r.c.ok { String::new() } else { r.c.err.lines().next().unwrap_or("").chars().take(100).collect() });
                }
                println!("violations: {}", serde_json::to_string(&violations).unwrap());
                println!("probes: {:?}", probes);
            }).unwrap();
            h.join().unwrap();
        }
        _ => {
            eprintln!("usage: sim-a run|replay|minimise|corpus ...");
            std::process::exit(2);
        }
    }
}
