fn main() {
    println!("sim-a smoke");
}
