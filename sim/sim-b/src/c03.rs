//! C03 - privacy loss is never under-reported; each DP aggregation fits its budget (DESIGN 3).
use crate::budget;
use crate::c01;
use simcommon::engine::{DrawMode, DrawPlan, Role};
use crate::ir::{self, NoiseMap};
use crate::oracle::*;
use crate::owners;
use crate::pipeline;
use simcommon::scenario::{Scenario, TableSpec};
use qrlew::differential_privacy::DpEvent;
use qrlew::relation::Variant as _;
use serde_json::json;

/// Injective matching mech -> entry with entry <= bound: sort both ascending.
fn match_upper(bounds: &mut Vec<f64>, entries: &mut Vec<f64>) -> Option<(f64, f64)> {
    bounds.sort_by(|a, b| a.partial_cmp(b).unwrap());
    entries.sort_by(|a, b| a.partial_cmp(b).unwrap());
    if entries.len() < bounds.len() {
        return Some((f64::NAN, bounds[bounds.len() - 1]));
    }
    for i in 0..bounds.len() {
        if entries[i] > bounds[i] * (1.0 + 1e-9) {
            return Some((entries[i], bounds[i]));
        }
    }
    None
}

pub fn check(sc: &Scenario, ex: &mut Exec) -> (Verdict, Option<String>) {
    let compiled = match compile_or_skip(sc, ex) {
        Ok(c) => c,
        Err(v) => return (v, None),
    };
    let scan = ir::scan(&compiled.dp);
    ex.stats.probe(&format!("key_releases_{}", scan.thresholds.len().min(3)));
    if !scan.unrecognised.is_empty() {
        return (Verdict::Skip("unrecognised_noise_pattern".into()), None);
    }
    let thr_names: Vec<String> = scan.thresholds.iter().map(|t| t.noise.map.name().to_string()).collect();
    let agg_maps: Vec<&NoiseMap> = scan.noise_maps.iter().filter(|m| !thr_names.contains(&m.map.name().to_string())).collect();
    let mut leaves = vec![];
    pipeline::event_leaves(&compiled.event, &mut leaves);
    if agg_maps.is_empty() && scan.thresholds.is_empty() {
        // no randomised mechanism in the rewriting: the event may be anything >= nothing
        return (Verdict::Skip("no_mechanism".into()), None);
    }
    let mut violations = vec![];
    let tabs: Vec<&TableSpec> = sc.tables.iter().chain(sc.synthetic.iter()).collect();
    let mut eng = match ex.engine(&tabs) {
        Ok(e) => e,
        Err(e) => return (Verdict::Skip(format!("engine_setup:{}", e)), None),
    };

    // ---- the mechanisms actually applied: sigma_j (IR literal) and C_j
    let mut ratios: Vec<f64> = vec![]; // sigma_j / C_j of every aggregate mechanism with sigma > 0
    let mut a_over: Vec<f64> = vec![]; // C_j / sigma_j
    // the same two lists without the mechanisms whose sigma overflowed to f64::MAX (known finding)
    let mut ratios_ns: Vec<f64> = vec![];
    let mut a_over_ns: Vec<f64> = vec![];
    let mut n_saturated = 0usize;
    let mut untraced: Vec<(usize, usize)> = vec![];
    let mut clip: Vec<Vec<Option<f64>>> = vec![];
    for (mi, m) in agg_maps.iter().enumerate() {
        let mut row = vec![];
        for (j, c) in m.cols.iter().enumerate() {
            let input_col = c.input_col.clone().unwrap_or(c.name.clone());
            let cj = ir::clip_of(&m.input, &input_col);
            if cj.is_none() {
                untraced.push((mi, j));
            }
            row.push(cj);
        }
        clip.push(row);
    }
    if !untraced.is_empty() {
        // fall back to a measured lower bound of the sensitivity (DESIGN 3, C03)
        ex.stats.probe("clip_constant_measured_instead_of_traced");
        let own = owners::owners(sc);
        let units = c01::pick_units(sc, &own, 3);
        let plan = DrawPlan::neutral(sc.engine_seed).release_all().with_cap(c01::cap_mode(sc)).with_row_id(DrawMode::Inc);
        let fixed: Vec<bool> = agg_maps.iter().map(|_| scan.thresholds.is_empty()).collect();
        match c01::measure(sc, ex, &agg_maps, &plan, &fixed, &units, &own) {
            Ok(ms) => {
                for (mi, j) in &untraced {
                    let mx = ms.deltas.iter().map(|(_, pm)| pm[*mi][*j]).filter(|d| !d.is_nan()).fold(0.0, f64::max);
                    clip[*mi][*j] = Some(mx);
                }
            }
            Err(e) => return (Verdict::Skip(format!("engine_gap:{}", short(&e))), None),
        }
    }
    for (mi, m) in agg_maps.iter().enumerate() {
        for (j, c) in m.cols.iter().enumerate() {
            let cj = clip[mi][j].unwrap_or(0.0);
            if c.sigma > 0.0 && cj > 0.0 {
                ratios.push(c.sigma / cj);
                a_over.push(cj / c.sigma);
                if c.sigma >= f64::MAX {
                    n_saturated += 1;
                } else {
                    ratios_ns.push(c.sigma / cj);
                    a_over_ns.push(cj / c.sigma);
                }
            } else if c.sigma == 0.0 && cj > 0.0 {
                violations.push(Violation {
                    property: "C03".into(),
                    invariant: "mechanism_without_noise".into(),
                    class: "unclassified".into(),
                    detail: format!("column {} is clipped at {} but gets sigma = 0", c.name, cj),
                    witness: json!({"column": c.name, "clip": cj}),
                });
            }
        }
    }

    // ---- (i) dynamic cross-check: the sigma in the IR is the sigma the engine applies
    for m in &agg_maps {
        let sql = pipeline::render(&m.map);
        let mut cs: Vec<f64> = vec![1.0];
        let small = m
            .cols
            .iter()
            .filter(|c| c.sigma > 0.0 && c.sigma.is_finite())
            .filter_map(|c| c.clamp.map(|(lo, hi)| (hi - lo) / (8.0 * c.sigma)))
            .fold(f64::INFINITY, f64::min);
        if small.is_finite() && small > 0.0 && small < 1.0 {
            cs.push(small);
        }
        let base = DrawPlan::neutral(sc.engine_seed).release_all().with_cap(c01::cap_mode(sc)).with_row_id(DrawMode::Inc);
        let (r0, _) = match ex.query(&mut eng, "noise_map_neutral", &sql, &base) {
            Ok(x) => x,
            Err(e) => {
                ex.stats.probe("applied_sigma_skipped_engine_gap");
                ex.log.push(format!("engine gap {}", short(&e)));
                continue;
            }
        };
        for c in cs {
            for sign in [1.0f64, -1.0] {
                // only this map's own sites are forced: an inner DP aggregation (nested queries)
                // must keep its neutral draws, or the pre-noise value itself would move
                let mut plan = base.clone();
                for col in &m.cols {
                    plan = plan.with_site_z(col.u1_site, col.u2_site, sign * c);
                }
                let (rz, _) = match ex.query(&mut eng, "noise_map_z", &sql, &plan) {
                    Ok(x) => x,
                    Err(_) => continue,
                };
                if rz.rows.len() != r0.rows.len() {
                    continue;
                }
                // rows come out in the same order (same plan, same data, deterministic engine)
                for col in &m.cols {
                    let (Some(i0), Some(iz)) = (r0.col(&col.name), rz.col(&col.name)) else { continue };
                    for (a, b) in r0.rows.iter().zip(rz.rows.iter()) {
                        let (Some(x0), Some(xz)) = (num(&a[i0]), num(&b[iz])) else { continue };
                        let (lo, hi) = col.clamp.unwrap_or((f64::NEG_INFINITY, f64::INFINITY));
                        if !(x0 > lo && x0 < hi) {
                            continue; // the neutral value sits on the clamp: pre-noise value unknown
                        }
                        let expect = (x0 + sign * c * col.sigma).clamp(lo, hi);
                        // a forced draw z is sqrt(-2 ln U1) with U1 = exp(-z^2/2) stored as an f64
                        // next to 1: relative error about 2e-16 / z^2 (visible for |z| < 1e-4)
                        let tol = (1e-6 + 4e-16 / (c * c)) * (x0.abs() + c * col.sigma) + 1e-9;
                        if !((xz - expect).abs() <= tol) && expect.is_finite() {
                            violations.push(Violation {
                                property: "C03".into(),
                                invariant: "applied_sigma".into(),
                                class: "unclassified".into(),
                                detail: format!(
                                    "column {}: forcing every Gaussian draw to {}*sigma moved a cell from {} to {} but the IR's sigma {} predicts {}",
                                    col.name, sign * c, x0, xz, col.sigma, expect
                                ),
                                witness: json!({"column": col.name, "neutral": x0, "forced": xz, "sigma": col.sigma, "z": sign * c}),
                            });
                            break;
                        }
                    }
                    if violations.len() >= 3 {
                        break;
                    }
                }
            }
        }
    }

    // ---- draw log of the whole query: which sites drew
    let dp_sql = pipeline::render(&compiled.dp);
    let plan = DrawPlan::seeded(sc.engine_seed).release_all().with_cap(DrawMode::Seeded).with_row_id(DrawMode::Inc);
    match ex.query(&mut eng, "dp_seeded", &dp_sql, &plan) {
        Ok((_, log)) => {
            let known: Vec<i64> = scan.noise_maps.iter().flat_map(|m| m.cols.iter().flat_map(|c| [c.u1_site, c.u2_site])).collect();
            for (k, l) in &log {
                if (k.role == Role::U1 || k.role == Role::U2) && l.calls > 0 && !known.contains(&k.site) {
                    ex.stats.probe("noise_site_outside_scan");
                    return (Verdict::Skip("noise_site_outside_scan".into()), None);
                }
            }
        }
        Err(e) => {
            // the engine rejects the rendered query (e.g. duplicate CTE names): the draw log is
            // only a cross-check, the mechanisms below are read from the IR
            ex.stats.probe("draw_log_skipped_engine_gap");
            ex.log.push(format!("engine gap {}", short(&e)));
        }
    }

    // ---- (ii) every mechanism is matched by an event entry that reports at least its loss
    let mut gauss: Vec<f64> = leaves.iter().filter_map(|e| match e { DpEvent::Gaussian { noise_multiplier } => Some(*noise_multiplier), _ => None }).collect();
    let mut bounds = ratios.clone();
    if let Some((entry, bound)) = match_upper(&mut bounds, &mut gauss) {
        // excused only if the mismatch disappears once the overflowed mechanisms (each paired
        // with one recorded entry) are set aside
        let mut g2 = gauss.clone();
        g2.sort_by(|a, b| b.partial_cmp(a).unwrap());
        let mut g2: Vec<f64> = g2.into_iter().skip(n_saturated).collect();
        let class = if n_saturated > 0 && match_upper(&mut ratios_ns.clone(), &mut g2).is_none() { "sigma_saturated" } else { "unclassified" };
        violations.push(Violation {
            property: "C03".into(),
            invariant: "gaussian_entry".into(),
            class: class.into(),
            detail: if entry.is_nan() {
                format!("{} Gaussian mechanisms are applied but the event records only {} Gaussian entries", ratios.len(), gauss.len())
            } else {
                format!("the event records noise multiplier {} for a mechanism whose applied sigma/C is {} (loss under-reported)", entry, bound)
            },
            witness: json!({"applied_sigma_over_c": ratios, "recorded": gauss}),
        });
    }
    let cu = sc.params.cu as f64;
    let mut thr_used: Vec<(f64, f64)> = vec![];
    for t in &scan.thresholds {
        let sigma = t.noise.cols.iter().find(|c| c.name == t.column).map(|c| c.sigma).unwrap_or(0.0);
        if !(sigma > 0.0) {
            violations.push(Violation {
                property: "C03".into(),
                invariant: "threshold_without_noise".into(),
                class: "unclassified".into(),
                detail: "key release compares an un-noised count with tau".into(),
                witness: json!({"tau": t.tau}),
            });
            continue;
        }
        // the (epsilon, delta) of the key release is computed for units capped at Cu keys
        match ir::cap_below(t) {
            Some(c) if c <= cu => {}
            other => violations.push(Violation {
                property: "C03".into(),
                invariant: "threshold_cap".into(),
                class: "unclassified".into(),
                detail: format!(
                    "the key release is recorded for units contributing to at most Cu = {} keys, but the rewritten query {} before counting units per key",
                    cu,
                    match other { Some(c) => format!("caps contributions at {}", c), None => "applies no contribution cap".to_string() }
                ),
                witness: json!({"cu": cu, "cap_in_query": other}),
            }),
        }
        if t.tau == f64::INFINITY {
            // tau overflowed (delta share / Cu below f64 resolution): nothing is ever released, the
            // key release spends nothing
            thr_used.push((0.0, 0.0));
            continue;
        }
        let z = (t.tau - 1.0) / sigma;
        let d_exact = budget::delta_of_z(z, cu);
        // the compiler computes tau from (1 - delta)^(1/Cu) in f64: an absolute rounding of
        // ~1e-16 on a quantity at distance delta / Cu from 1 moves the delta implied by the
        // tau literal by a relative Cu * 1e-16 / delta (visible from delta ~ 1e-12 down); the
        // (epsilon, delta) the literals imply is read at the favourable end of that interval
        let d_tol = (8e-16 * cu / d_exact.max(1e-300)).min(0.5);
        let d_used = d_exact * (1.0 - d_tol);
        let e_used = budget::g((d_exact * (1.0 + d_tol)).min(0.5)) * cu.sqrt() / sigma;
        thr_used.push((e_used, d_used));
    }
    let eds: Vec<(f64, f64)> = c01::threshold_entries(&compiled.event);
    // injective matching of thresholds to EpsilonDelta entries (at most a few: brute force greedy
    // over sorted lists is exact when entries are comparable; fall back to permutation search)
    {
        let mut used = vec![false; eds.len()];
        let mut order: Vec<usize> = (0..thr_used.len()).collect();
        order.sort_by(|a, b| thr_used[*b].0.partial_cmp(&thr_used[*a].0).unwrap());
        for i in order {
            let (eu, du) = thr_used[i];
            let mut found = None;
            let mut best = f64::INFINITY;
            for (j, (e, d)) in eds.iter().enumerate() {
                if !used[j] && *e >= eu * (1.0 - 1e-6) && *d >= du * (1.0 - 1e-4) && *e < best {
                    best = *e;
                    found = Some(j);
                }
            }
            match found {
                Some(j) => used[j] = true,
                None => {
                    violations.push(Violation {
                        property: "C03".into(),
                        invariant: "threshold_entry".into(),
                        class: "unclassified".into(),
                        detail: format!("key release uses (epsilon, delta) = ({}, {}) (from sigma and tau in the query, Cu = {}) but no unmatched EpsilonDelta entry of the event is at least that: {:?}", eu, du, cu, eds),
                        witness: json!({"used": [eu, du], "recorded": eds, "cu": cu}),
                    });
                }
            }
        }
    }

    // ---- (iii) the noise applied fits the budget handed to the compiler
    let n_red = c01::count_reduces(&compiled.original).max(1) as f64;
    let e_tau: f64 = thr_used.iter().map(|t| t.0).sum();
    let d_tau: f64 = thr_used.iter().map(|t| t.1).sum();
    let d_avail = n_red * sc.params.delta - d_tau;
    let need = budget::min_epsilon(&a_over, d_avail) + e_tau;
    if need > n_red * sc.params.epsilon * (1.0 + 1e-6) {
        let need_ns = budget::min_epsilon(&a_over_ns, d_avail) + e_tau;
        let class = if n_saturated > 0 && need_ns <= n_red * sc.params.epsilon * (1.0 + 1e-6) { "sigma_saturated" } else { "unclassified" };
        violations.push(Violation {
            property: "C03".into(),
            invariant: "aggregation_budget".into(),
            class: class.into(),
            detail: format!(
                "the mechanisms applied need epsilon {} (key release {} + aggregates at the best split of delta {}) but the compiler was given {} x {}",
                need, e_tau, d_avail, n_red, sc.params.epsilon
            ),
            witness: json!({"need": need, "eps_tau_used": e_tau, "delta_tau_used": d_tau, "c_over_sigma": a_over, "epsilon": sc.params.epsilon, "delta": sc.params.delta, "n_reduce": n_red}),
        });
    }
    if d_tau > n_red * sc.params.delta * (1.0 + 1e-4) {
        violations.push(Violation {
            property: "C03".into(),
            invariant: "aggregation_budget_delta".into(),
            class: "unclassified".into(),
            detail: format!("key release alone uses delta {} > {} x {}", d_tau, n_red, sc.params.delta),
            witness: json!({"delta_tau_used": d_tau}),
        });
    }

    let shape = mini_shape(
        sc,
        &format!(
            "mech:{}g+{}t|eps:{}|{}",
            ratios.len(),
            thr_used.len(),
            if sc.params.epsilon > 1.0 { "gt1" } else { "le1" },
            sc.tags.iter().filter(|t| t.starts_with("hist:")).cloned().collect::<Vec<_>>().join("")
        ),
    );
    if violations.is_empty() {
        (Verdict::Ok, Some(shape))
    } else {
        (Verdict::Violations(violations), Some(shape))
    }
}
