//! Who owns which row: the harness's own reading of the privacy-unit definition on the data
//! (foreign-key path followed in the instance), independent of the compiler's tracking code.
//! Used to build neighbouring instances (D minus one unit) and the holders side tables.
use simcommon::scenario::{Cell, ColSpec, ColType, PuEntry, Scenario, TableSpec, ROW_PRIVACY};
use std::collections::{BTreeMap, BTreeSet};

/// For every protected table: per row, the set of unit keys owning it.
/// (with multiplicity: a row reached through two parent rows of the same unit is tracked twice)
pub type Owners = BTreeMap<String, Vec<Vec<String>>>;

fn sql_eq(a: &Cell, b: &Cell) -> bool {
    !a.is_null() && !b.is_null() && a.key() == b.key()
}

fn owners_of_entry(tables: &[TableSpec], e: &PuEntry) -> Vec<Vec<String>> {
    let find = |key: &str| tables.iter().find(|t| t.has_key(key));
    let t = match find(&e.table) {
        Some(t) => t,
        None => return vec![],
    };
    let mut out = Vec::with_capacity(t.rows.len());
    for (ri, _) in t.rows.iter().enumerate() {
        // frontier of (table, row index)
        let mut frontier: Vec<(&TableSpec, usize)> = vec![(t, ri)];
        let mut ok = true;
        for (ref_col, ref_table, ref_id) in &e.path {
            let t2 = match find(ref_table) {
                Some(x) => x,
                None => {
                    ok = false;
                    break;
                }
            };
            let mut next = vec![];
            for (ft, fr) in &frontier {
                let ci = match ft.col_index(ref_col) {
                    Some(c) => c,
                    None => continue,
                };
                let idc = match t2.col_index(ref_id) {
                    Some(c) => c,
                    None => continue,
                };
                let v = &ft.rows[*fr][ci];
                for (r2, row2) in t2.rows.iter().enumerate() {
                    if sql_eq(v, &row2[idc]) {
                        next.push((t2, r2));
                    }
                }
            }
            frontier = next;
        }
        let mut set: Vec<String> = vec![];
        if ok {
            for (ft, fr) in &frontier {
                if e.field == ROW_PRIVACY {
                    set.push(format!("row:{}:{}", ft.name, fr));
                } else if let Some(ci) = ft.col_index(&e.field) {
                    let v = &ft.rows[*fr][ci];
                    if !v.is_null() {
                        set.push(v.key());
                    }
                }
            }
        }
        set.sort();
        out.push(set);
    }
    out
}

pub fn owners(sc: &Scenario) -> Owners {
    let mut m = Owners::new();
    for e in &sc.pu.entries {
        // keyed by the table's SQL name, whatever key the entry uses
        let key = sc.table(&e.table).map(|t| t.name.clone()).unwrap_or(e.table.clone());
        m.insert(key, owners_of_entry(&sc.tables, e));
    }
    m
}

/// Units ordered by number of owned rows in `table` (heaviest first); ties by key.
pub fn units_by_weight(own: &Owners, table: &str) -> Vec<(String, usize)> {
    let mut cnt: BTreeMap<String, usize> = BTreeMap::new();
    if let Some(rows) = own.get(table) {
        for s in rows {
            for u in s {
                *cnt.entry(u.clone()).or_default() += 1;
            }
        }
    }
    let mut v: Vec<(String, usize)> = cnt.into_iter().collect();
    v.sort_by(|a, b| b.1.cmp(&a.1).then(a.0.cmp(&b.0)));
    v
}

pub fn all_units(own: &Owners) -> BTreeSet<String> {
    let mut s = BTreeSet::new();
    for rows in own.values() {
        for r in rows {
            for u in r {
                s.insert(u.clone());
            }
        }
    }
    s
}

/// D minus unit `u`: every protected table loses the rows owned by `u` alone.
/// Row-privacy unit keys name a row index; removal keeps the other rows' relative order.
pub fn without_unit(sc: &Scenario, own: &Owners, u: &str) -> Vec<TableSpec> {
    sc.tables
        .iter()
        .map(|t| match own.get(&t.name) {
            None => t.clone(),
            Some(o) => {
                let rows = t
                    .rows
                    .iter()
                    .enumerate()
                    .filter(|(i, _)| !(!o[*i].is_empty() && o[*i].iter().all(|x| x == u)))
                    .map(|(_, r)| r.clone())
                    .collect();
                TableSpec { rows, ..t.clone() }
            }
        })
        .collect()
}

/// Side tables `__own_<table>(rid, unit)`: one row per (row, owner); rid = SQLite rowid (1-based
/// insertion order).
pub fn side_tables(sc_tables: &[TableSpec], own: &Owners) -> Vec<TableSpec> {
    let mut v = vec![];
    for t in sc_tables {
        if let Some(o) = own.get(&t.name) {
            let mut rows = vec![];
            for (i, s) in o.iter().enumerate() {
                for u in s {
                    rows.push(vec![Cell::Int(i as i64 + 1), Cell::Text(u.clone())]);
                }
            }
            v.push(TableSpec {
                name: format!("__own_{}", t.name),
                qrlew_name: None,
                cols: vec![
                    ColSpec { name: "rid".into(), ty: ColType::IntRange { lo: 0, hi: i64::MAX }, optional: false, unique: false },
                    ColSpec { name: "unit".into(), ty: ColType::Text, optional: false, unique: false },
                ],
                size: rows.len() as i64,
                rows,
            });
        }
    }
    v
}
