//! Delta debugging of a failing scenario (DESIGN 2.5): a candidate is accepted only if the same
//! invariant of the same property still fails (same class).
use crate::oracle::{Exec, Stats, Verdict};
use simcommon::scenario::{CompileState, Scenario};

pub type CheckFn = fn(&str, &Scenario, &mut Exec) -> (Verdict, Option<String>);

fn fails_same(check: CheckFn, prop: &str, sc: &Scenario, invariant: &str, class: &str) -> bool {
    let sc = sc.clone();
    let prop = prop.to_string();
    let inv = invariant.to_string();
    let class = class.to_string();
    std::env::set_var("VERIF_HASH_SEED", sc.compile.hash_seed.to_string());
    simcommon::new_hash_epoch();
    std::thread::Builder::new()
        .stack_size(256 << 20)
        .spawn(move || {
            let mut stats = Stats::default();
            let mut log = vec![];
            let mut ex = Exec { stats: &mut stats, log: &mut log };
            match check(&prop, &sc, &mut ex).0 {
                Verdict::Violations(v) => v.iter().any(|x| x.invariant == inv && x.class == class),
                _ => false,
            }
        })
        .unwrap()
        .join()
        .unwrap_or(false)
}

fn resql(sc: &mut Scenario) {
    if let Some(q) = &sc.query {
        sc.sql = q.sql();
    }
}

pub fn minimise(check: CheckFn, prop: &str, sc: &Scenario, invariant: &str, class: &str) -> (Scenario, u64) {
    let mut best = sc.clone();
    let mut tried = 0u64;
    let mut accept = |cand: Scenario, best: &mut Scenario, tried: &mut u64| -> bool {
        *tried += 1;
        if *tried > 600 {
            return false;
        }
        if fails_same(check, prop, &cand, invariant, class) {
            *best = cand;
            true
        } else {
            false
        }
    };
    // 1. compile-side state and tags
    {
        let mut c = best.clone();
        c.compile = CompileState { reset_first: true, burn: vec![], hash_seed: c.compile.hash_seed };
        accept(c, &mut best, &mut tried);
    }
    // 2. query pieces
    loop {
        let mut progress = false;
        if let Some(q) = best.query.clone() {
            if q.outer.is_some() {
                let mut c = best.clone();
                c.query.as_mut().unwrap().outer = None;
                resql(&mut c);
                progress |= accept(c, &mut best, &mut tried);
            }
            if q.having.is_some() {
                let mut c = best.clone();
                c.query.as_mut().unwrap().having = None;
                resql(&mut c);
                progress |= accept(c, &mut best, &mut tried);
            }
            for i in (0..q.where_.len()).rev() {
                let mut c = best.clone();
                if i < c.query.as_ref().unwrap().where_.len() {
                    c.query.as_mut().unwrap().where_.remove(i);
                    resql(&mut c);
                    progress |= accept(c, &mut best, &mut tried);
                }
            }
            for i in (0..q.aggs.len()).rev() {
                let mut c = best.clone();
                let qq = c.query.as_mut().unwrap();
                if qq.aggs.len() > 1 && i < qq.aggs.len() {
                    let alias = qq.aggs[i].alias.clone();
                    qq.aggs.remove(i);
                    if let Some(o) = qq.outer.as_mut() {
                        o.retain(|(_, a)| *a != alias);
                    }
                    resql(&mut c);
                    progress |= accept(c, &mut best, &mut tried);
                }
            }
            for i in (0..q.keys.len()).rev() {
                let mut c = best.clone();
                let qq = c.query.as_mut().unwrap();
                if i < qq.keys.len() {
                    let alias = qq.keys[i].alias.clone();
                    qq.keys.remove(i);
                    if let Some(o) = qq.outer.as_mut() {
                        o.retain(|(_, a)| *a != alias);
                    }
                    if qq.keys.is_empty() {
                        qq.having = None;
                    }
                    resql(&mut c);
                    progress |= accept(c, &mut best, &mut tried);
                }
            }
            // drop the last join if nothing refers to its alias
            if q.from.len() > 1 {
                let mut c = best.clone();
                let qq = c.query.as_mut().unwrap();
                let last = qq.from.pop().unwrap();
                let pref = format!("{}.", last.alias);
                let refers = qq.where_.iter().any(|w| w.contains(&pref))
                    || qq.keys.iter().any(|k| k.expr.contains(&pref))
                    || qq.aggs.iter().any(|a| a.arg.contains(&pref))
                    || qq.from.iter().any(|f| f.on.as_deref().unwrap_or("").contains(&pref));
                if !refers {
                    resql(&mut c);
                    progress |= accept(c, &mut best, &mut tried);
                }
            }
        }
        if !progress {
            break;
        }
    }
    // 3. rows: halves, then single rows
    for ti in 0..best.tables.len() {
        let mut chunk = (best.tables[ti].rows.len() / 2).max(1);
        while chunk >= 1 {
            let mut i = 0;
            while i < best.tables[ti].rows.len() {
                let mut c = best.clone();
                let end = (i + chunk).min(c.tables[ti].rows.len());
                c.tables[ti].rows.drain(i..end);
                if !accept(c, &mut best, &mut tried) {
                    i += chunk;
                }
                if tried > 600 {
                    break;
                }
            }
            if chunk == 1 || tried > 600 {
                break;
            }
            chunk /= 2;
        }
    }
    // 4. synthetic twins and unused public tables
    if !best.synthetic.is_empty() {
        let mut c = best.clone();
        c.synthetic.clear();
        accept(c, &mut best, &mut tried);
    }
    for ti in (0..best.tables.len()).rev() {
        let name = best.tables[ti].name.clone();
        let used = best.sql.contains(&format!("{} AS", name)) || best.pu.entries.iter().any(|e| e.table == name || e.path.iter().any(|p| p.1 == name));
        if !used {
            let mut c = best.clone();
            c.tables.remove(ti);
            accept(c, &mut best, &mut tried);
        }
    }
    best.tags.push(format!("minimised:{}", tried));
    (best, tried)
}
