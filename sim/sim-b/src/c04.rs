//! C04 - grouping keys are released only if public or above the tau threshold (DESIGN 3, C04).
//! All invariants are evaluated on the projection of released key tuples onto the key columns
//! that have no publicly declared value set.
use crate::budget;
use simcommon::engine::{DrawMode, DrawPlan, ResultSet};
use crate::ir;
use crate::oracle::*;
use crate::owners;
use crate::pipeline;
use simcommon::scenario::{Scenario, TableSpec};
use serde_json::json;
use std::collections::{BTreeMap, BTreeSet};

fn project(rs: &ResultSet, cols: &[String]) -> BTreeSet<Vec<String>> {
    let idx: Vec<usize> = cols.iter().filter_map(|c| rs.col(c)).collect();
    rs.rows.iter().map(|r| idx.iter().map(|i| r[*i].key()).collect()).collect()
}

pub fn check(sc: &Scenario, ex: &mut Exec) -> (Verdict, Option<String>) {
    let q = match &sc.query {
        Some(q) if q.plain.is_none() && !q.keys.is_empty() => q.clone(),
        _ => return (Verdict::Skip("no_grouped_query_spec".into()), None),
    };
    let (base_alias, base_table) = match &sc.base {
        Some(b) => b.clone(),
        None => return (Verdict::Skip("no_base".into()), None),
    };
    let priv_cols: Vec<String> = q.keys.iter().filter(|k| k.public_set.is_none()).map(|k| k.alias.clone()).collect();
    let sure_priv: Vec<String> = q.keys.iter().filter(|k| k.public_set.is_none() && !k.ambiguous).map(|k| k.alias.clone()).collect();
    if priv_cols.is_empty() {
        return (Verdict::Skip("no_private_key".into()), None);
    }
    let compiled = match compile_or_skip(sc, ex) {
        Ok(c) => c,
        Err(v) => return (v, None),
    };
    let scan = ir::scan(&compiled.dp);
    if scan.noise_maps.is_empty() && !scan.tables.iter().any(|t| sc.is_protected(t)) {
        // answered from public / synthetic tables only
        return (Verdict::Skip("no_noise_in_rewriting".into()), None);
    }
    let own = owners::owners(sc);
    let side = owners::side_tables(&sc.tables, &own);
    let tabs: Vec<&TableSpec> = sc.tables.iter().chain(sc.synthetic.iter()).chain(side.iter()).collect();
    let mut eng = match ex.engine(&tabs) {
        Ok(e) => e,
        Err(e) => return (Verdict::Skip(format!("engine_setup:{}", e)), None),
    };
    let cu = sc.params.cu as f64;
    let (sigma_req, tau_req) = budget::required_tau(sc.params.epsilon * sc.params.tau_share, sc.params.delta * sc.params.tau_share, cu);
    let mut violations = vec![];

    // holders: (private key projection) -> set of units, from the harness's own ownership tables
    let neutral = DrawPlan::neutral(sc.engine_seed).with_row_id(DrawMode::Inc);
    let (hold, _) = match ex.query(&mut eng, "holders", &q.holders_sql(&base_alias, &base_table), &neutral) {
        Ok(x) => x,
        Err(e) => return (Verdict::Skip(format!("engine_gap_holders:{}", short(&e))), None),
    };
    let pidx: Vec<usize> = priv_cols.iter().filter_map(|c| hold.col(c)).collect();
    let uidx = hold.col("__unit").unwrap();
    let mut holders: BTreeMap<Vec<String>, BTreeSet<String>> = BTreeMap::new();
    for r in &hold.rows {
        let k: Vec<String> = pidx.iter().map(|i| r[*i].key()).collect();
        holders.entry(k).or_default().insert(r[uidx].key());
    }
    let n_of = |k: &Vec<String>| -> usize { holders.get(k).map(|s| s.len()).unwrap_or(0) };

    let dp_sql = pipeline::render(&compiled.dp);

    // I0: a surely private key column must go through thresholding at all
    if scan.thresholds.is_empty() {
        if !sure_priv.is_empty() {
            let (rs, _) = match ex.query(&mut eng, "dp_neutral", &dp_sql, &neutral) {
                Ok(x) => x,
                Err(e) => return (Verdict::Skip(format!("engine_gap_dp:{}", short(&e))), None),
            };
            if !rs.rows.is_empty() {
                violations.push(Violation {
                    property: "C04".into(),
                    invariant: "private_key_without_threshold".into(),
                    class: "unclassified".into(),
                    detail: format!("key column(s) {:?} have no publicly declared value set, yet the rewriting releases {} key tuple(s) without any threshold mechanism", sure_priv, rs.rows.len()),
                    witness: json!({"columns": sure_priv, "released": rs.rows.len()}),
                });
                return (Verdict::Violations(violations), Some(mini_shape(sc, "no_threshold")));
            }
        }
        return (Verdict::Skip("keys_released_as_public".into()), None);
    }

    // I2: literals in the IR against the tau required by the reserved (epsilon, delta) share
    let mut tau_ir = f64::INFINITY;
    let mut sigma_ir = f64::INFINITY;
    for t in &scan.thresholds {
        let sigma = t.noise.cols.iter().find(|c| c.name == t.column).map(|c| c.sigma).unwrap_or(0.0);
        tau_ir = tau_ir.min(t.tau);
        sigma_ir = sigma_ir.min(sigma);
        // the compiler evaluates Phi^-1((1 - delta)^(1/Cu)) in f64: an absolute rounding of a few
        // 1e-16 on the probability moves the quantile by that over the density there (visible
        // once delta x share ~ 1e-12: the quantile is then only good to ~1e-5)
        let z_req = (tau_req - 1.0) / sigma_req;
        let dz = 4e-16 / ((-z_req * z_req / 2.0).exp() / (2.0 * std::f64::consts::PI).sqrt()).max(1e-300);
        if t.tau < tau_req * (1.0 - 1e-6) - sigma_req * dz || sigma < sigma_req * (1.0 - 1e-9) {
            violations.push(Violation {
                property: "C04".into(),
                invariant: "tau_literal".into(),
                class: "unclassified".into(),
                detail: format!(
                    "the rewritten query thresholds at tau = {} with sigma = {}; the share reserved for key release (epsilon {} x {}, delta {} x {}, Cu = {}) requires tau >= {} and sigma >= {}",
                    t.tau, sigma, sc.params.epsilon, sc.params.tau_share, sc.params.delta, sc.params.tau_share, cu, tau_req, sigma_req
                ),
                witness: json!({"tau": t.tau, "sigma": sigma, "tau_required": tau_req, "sigma_required": sigma_req}),
            });
        }
    }

    let released = |rs: &ResultSet| -> BTreeSet<Vec<String>> { project(rs, &priv_cols) };
    let mut n_released_max = 0usize;

    // I1: with the threshold noise at zero, a released private key is held by more than tau units
    {
        let plan = DrawPlan::neutral(sc.engine_seed).with_row_id(DrawMode::Inc).with_cap(DrawMode::Seeded);
        match ex.query(&mut eng, "dp_neutral", &dp_sql, &plan) {
            Ok((rs, _)) => {
                if q.hide_keys {
                    // keys grouped on but not selected: the rows released are at most the keys
                    // held by more than tau units
                    let allowed = holders.values().filter(|s| s.len() as f64 > tau_req * (1.0 - 1e-6)).count();
                    ex.stats.probe("hidden_keys_row_count_checked");
                    n_released_max = n_released_max.max(rs.rows.len());
                    if rs.rows.len() > allowed {
                        violations.push(Violation {
                            property: "C04".into(),
                            invariant: "released_below_tau".into(),
                            class: "unclassified".into(),
                            detail: format!("with zero threshold noise the result has {} rows - one per released key of the hidden grouping column(s) {:?} - although only {} key(s) are held by more than tau = {} units", rs.rows.len(), priv_cols, allowed, tau_req),
                            witness: json!({"rows": rs.rows.len(), "keys_above_tau": allowed, "tau_required": tau_req}),
                        });
                    }
                }
                let rel = if q.hide_keys { BTreeSet::new() } else { released(&rs) };
                n_released_max = n_released_max.max(rel.len());
                for k in &rel {
                    let n = n_of(k);
                    if !(n as f64 > tau_req * (1.0 - 1e-6)) {
                        violations.push(Violation {
                            property: "C04".into(),
                            invariant: "released_below_tau".into(),
                            class: "unclassified".into(),
                            detail: format!("with zero threshold noise the key {:?} (columns {:?}) is released although only {} unit(s) hold it; required tau is {}", k, priv_cols, n, tau_req),
                            witness: json!({"key": k, "units": n, "tau_required": tau_req}),
                        });
                        break;
                    }
                }
                // mixed keys: which (public, private) tuples appear must not be decided by the
                // tuples' own few holders. A compiler that thresholds the private part alone has to
                // output the whole grid (released private values x public values) - then the set of
                // released tuples is a product; one that thresholds tuples releases only tuples held
                // by more than tau units. A set that is not a product and contains a tuple held by
                // fewer units than tau is released tuple by tuple without a threshold of its own.
                let pub_cols: Vec<String> = q.keys.iter().filter(|k| k.public_set.is_some()).map(|k| k.alias.clone()).collect();
                let plain_keys = q.keys.iter().all(|k| k.group_expr.is_none() && k.select_agg.is_none());
                if !pub_cols.is_empty() && plain_keys && q.having.is_none() && q.outer.is_none() && q.holders_override.is_none() {
                    let all_cols: Vec<String> = q.keys.iter().map(|k| k.alias.clone()).collect();
                    let hidx: Vec<Option<usize>> = all_cols.iter().map(|c| hold.col(c)).collect();
                    if hidx.iter().all(|i| i.is_some()) && all_cols.iter().all(|c| rs.col(c).is_some()) {
                        let mut tuple_holders: BTreeMap<Vec<String>, BTreeSet<String>> = BTreeMap::new();
                        for r in &hold.rows {
                            tuple_holders.entry(hidx.iter().map(|i| r[i.unwrap()].key()).collect()).or_default().insert(r[uidx].key());
                        }
                        let tuples = project(&rs, &all_cols);
                        let ks = project(&rs, &priv_cols);
                        let ps = project(&rs, &pub_cols);
                        ex.stats.probe("mixed_keys_tuples_checked");
                        if tuples.len() < ks.len() * ps.len() {
                            ex.stats.probe("mixed_keys_released_set_not_a_product");
                            if let Some(t) = tuples.iter().find(|t| {
                                let n = tuple_holders.get(*t).map(|s| s.len()).unwrap_or(0);
                                n >= 1 && !(n as f64 > tau_req * (1.0 - 1e-6))
                            }) {
                                let n = tuple_holders.get(t).map(|s| s.len()).unwrap_or(0);
                                violations.push(Violation {
                                    property: "C04".into(),
                                    invariant: "tuple_released_by_its_own_holders".into(),
                                    class: "unclassified".into(),
                                    detail: format!(
                                        "with zero threshold noise the released key tuples ({} of {} x {}) are not the grid of released private values and public values, and the tuple {:?} (columns {:?}) is among them although only {} unit(s) hold it (required tau {}): its release is decided by its own holders",
                                        tuples.len(), ks.len(), ps.len(), t, all_cols, n, tau_req
                                    ),
                                    witness: json!({"tuple": t, "units": n, "tau_required": tau_req, "released_tuples": tuples.len(), "private_values": ks.len(), "public_combinations": ps.len()}),
                                });
                            }
                        }
                    }
                }
                // public part
                for ks in q.keys.iter().filter(|k| k.public_set.is_some()) {
                    if let Some(i) = rs.col(&ks.alias) {
                        let set: BTreeSet<String> = ks.public_set.as_ref().unwrap().iter().map(|c| c.key()).collect();
                        for r in &rs.rows {
                            let v = r[i].key();
                            if !(set.contains(&v) || (v == "NULL" && ks.nullable)) {
                                violations.push(Violation {
                                    property: "C04".into(),
                                    invariant: "public_value_outside_declared_set".into(),
                                    class: "unclassified".into(),
                                    detail: format!("released value {} of key {} ({}) is outside the declared set", v, ks.alias, ks.expr),
                                    witness: json!({"value": v, "key": ks.expr}),
                                });
                                break;
                            }
                        }
                    }
                }
            }
            Err(e) => return (Verdict::Skip(format!("engine_gap_dp:{}", short(&e))), None),
        }
    }

    // I4: effective thresholds on the count
    for t_eff in [1.5f64, 2.5, 4.5] {
        if !(sigma_ir > 0.0) || !tau_ir.is_finite() {
            break;
        }
        let z = (tau_ir - t_eff) / sigma_ir;
        if z.abs() > 37.0 {
            continue;
        }
        let plan = DrawPlan::neutral(sc.engine_seed).with_thr_z(z).with_row_id(DrawMode::Inc).with_cap(DrawMode::Inc);
        if let Ok((rs, _)) = ex.query(&mut eng, "dp_effective_threshold", &dp_sql, &plan) {
            if q.hide_keys {
                let allowed = holders.values().filter(|s| s.len() as f64 > t_eff - 1e-6).count();
                if rs.rows.len() > allowed {
                    violations.push(Violation {
                        property: "C04".into(),
                        invariant: "released_below_effective_threshold".into(),
                        class: "unclassified".into(),
                        detail: format!("threshold noise forced so that only counts above {} pass: the result has {} rows for hidden grouping column(s) {:?}, but only {} key(s) have that many holders", t_eff, rs.rows.len(), priv_cols, allowed),
                        witness: json!({"rows": rs.rows.len(), "keys_above": allowed, "effective_threshold": t_eff, "z": z}),
                    });
                    break;
                }
                continue;
            }
            let rel = released(&rs);
            n_released_max = n_released_max.max(rel.len());
            for k in &rel {
                let n = n_of(k);
                // count + z*sigma > tau  <=>  count > t_eff (up to rounding of z*sigma)
                if !(n as f64 > t_eff - 1e-6) {
                    violations.push(Violation {
                        property: "C04".into(),
                        invariant: "released_below_effective_threshold".into(),
                        class: "unclassified".into(),
                        detail: format!("threshold noise forced so that only counts above {} pass: key {:?} is released with {} holding unit(s)", t_eff, k, n),
                        witness: json!({"key": k, "units": n, "effective_threshold": t_eff, "z": z}),
                    });
                    break;
                }
            }
        }
    }

    // I3: cap - under any order of the capping draws a unit alone in m groups gets at most Cu out
    let mut alone: BTreeMap<String, Vec<Vec<String>>> = BTreeMap::new();
    for (k, us) in &holders {
        if us.len() == 1 {
            alone.entry(us.iter().next().unwrap().clone()).or_default().push(k.clone());
        }
    }
    let max_alone = alone.values().map(|v| v.len()).max().unwrap_or(0);
    let mut cap_checked = false;
    if max_alone > sc.params.cu as usize && !q.hide_keys {
        ex.stats.fault("unit_alone_in_more_than_cu_groups");
        let mut schedules: Vec<(&str, DrawMode, u64)> = vec![
            ("seeded_a", DrawMode::Seeded, 1),
            ("seeded_b", DrawMode::Seeded, 2),
            ("coarse2", DrawMode::Coarse(2), 3),
            ("const", DrawMode::Const(0.5), 4),
            ("inc", DrawMode::Inc, 5),
            ("dec", DrawMode::Dec, 6),
        ];
        if sc.depth > 0 {
            for k in 0..10u64 {
                schedules.push(("seeded_more", DrawMode::Seeded, 100 + k));
            }
            schedules.push(("coarse3", DrawMode::Coarse(3), 7));
            schedules.push(("coarse5", DrawMode::Coarse(5), 8));
        }
        for (name, mode, salt) in schedules {
            let mut plan = DrawPlan::neutral(sc.engine_seed ^ salt).release_all().with_row_id(DrawMode::Inc).with_cap(mode);
            plan.seed = sc.engine_seed ^ (salt << 32);
            ex.stats.fault(&format!("cap_schedule_{}", name));
            if let Ok((rs, _)) = ex.query(&mut eng, "dp_release_all", &dp_sql, &plan) {
                cap_checked = true;
                let rel = released(&rs);
                n_released_max = n_released_max.max(rel.len());
                for (u, ks) in &alone {
                    let out = ks.iter().filter(|k| rel.contains(*k)).count();
                    if out > sc.params.cu as usize {
                        violations.push(Violation {
                            property: "C04".into(),
                            invariant: "cap_exceeded".into(),
                            class: "unclassified".into(),
                            detail: format!("capping schedule {}: unit {} is the only holder of {} keys and {} of them are released with every candidate key forced out; Cu = {}", name, u, ks.len(), out, sc.params.cu),
                            witness: json!({"unit": u, "alone_in": ks.len(), "released": out, "cu": sc.params.cu, "schedule": name}),
                        });
                        break;
                    }
                }
            }
            if violations.len() >= 3 {
                break;
            }
        }
    }
    // I3': the cap seen through pivotal keys. With the effective threshold at t (only counts above
    // t pass), a released key k for which unit u is pivotal - n_k > t but n_k - 1 <= t, u among the
    // holders - needs u's own contribution, so it is one of the at most Cu groups u was limited to.
    if sigma_ir > 0.0 && tau_ir.is_finite() && violations.is_empty() && !q.hide_keys {
        'outer: for t_eff in [1.5f64, 2.5] {
            let z = (tau_ir - t_eff) / sigma_ir;
            if z.abs() > 37.0 {
                continue;
            }
            let need = t_eff.ceil() as usize; // n_k == need  <=>  every holder is pivotal
            let mut pivotal_of: BTreeMap<String, Vec<&Vec<String>>> = BTreeMap::new();
            for (k, us) in &holders {
                if us.len() == need {
                    for u in us {
                        pivotal_of.entry(u.clone()).or_default().push(k);
                    }
                }
            }
            if pivotal_of.values().map(|v| v.len()).max().unwrap_or(0) <= sc.params.cu as usize {
                continue;
            }
            ex.stats.fault("unit_pivotal_in_more_than_cu_groups");
            for (name, mode) in [("seeded", DrawMode::Seeded), ("inc", DrawMode::Inc), ("const", DrawMode::Const(0.5))] {
                let plan = DrawPlan::neutral(sc.engine_seed ^ 0x77).with_thr_z(z).with_row_id(DrawMode::Inc).with_cap(mode);
                if let Ok((rs, _)) = ex.query(&mut eng, "dp_pivotal", &dp_sql, &plan) {
                    let rel = released(&rs);
                    for (u, ks) in &pivotal_of {
                        let out = ks.iter().filter(|k| rel.contains(**k)).count();
                        if out > sc.params.cu as usize {
                            violations.push(Violation {
                                property: "C04".into(),
                                invariant: "cap_exceeded_pivotal".into(),
                                class: "unclassified".into(),
                                detail: format!(
                                    "capping schedule {}, only counts above {} pass: unit {} is pivotal for {} keys (each held by exactly {} units, this one included) and {} of them are released; a unit limited to Cu = {} groups can be pivotal for at most Cu released keys",
                                    name, t_eff, u, ks.len(), need, out, sc.params.cu
                                ),
                                witness: json!({"unit": u, "pivotal_for": ks.len(), "released": out, "cu": sc.params.cu, "effective_threshold": t_eff, "schedule": name}),
                            });
                            break 'outer;
                        }
                    }
                }
            }
        }
    }
    // I5: the cap seen before release. The per-key counts of distinct units the threshold noise is
    // added to are taken after every unit has been limited to Cu groups, so their total is at most
    // sum over units of min(Cu, number of key tuples the unit holds) - whoever shares the keys.
    if violations.is_empty() {
        for t in &scan.thresholds {
            let n_cols = t.noise.plain.len();
            let cols: Option<Vec<String>> = if n_cols == q.keys.len() {
                Some(q.keys.iter().map(|k| k.alias.clone()).collect())
            } else if n_cols == priv_cols.len() {
                Some(priv_cols.clone())
            } else {
                None
            };
            let Some(cols) = cols else { continue };
            let idx: Vec<usize> = cols.iter().filter_map(|c| hold.col(c)).collect();
            if idx.len() != cols.len() {
                continue;
            }
            let mut per_unit: BTreeMap<String, BTreeSet<Vec<String>>> = BTreeMap::new();
            for r in &hold.rows {
                per_unit.entry(r[uidx].key()).or_default().insert(idx.iter().map(|i| r[*i].key()).collect());
            }
            let bound: usize = per_unit.values().map(|s| s.len().min(sc.params.cu as usize)).sum();
            let plan = DrawPlan::neutral(sc.engine_seed ^ 0x99).with_row_id(DrawMode::Inc).with_cap(DrawMode::Seeded);
            if let Ok((rs, _)) = ex.query(&mut eng, "counts_after_cap", &pipeline::render(&t.noise.input), &plan) {
                if let Some(ci) = rs.col(&t.column) {
                    let total: f64 = rs.rows.iter().filter_map(|r| num(&r[ci])).sum();
                    ex.stats.fault("cap_total_checked");
                    if total > bound as f64 + 1e-9 {
                        violations.push(Violation {
                            property: "C04".into(),
                            invariant: "cap_total_exceeded".into(),
                            class: "unclassified".into(),
                            detail: format!(
                                "the per-key distinct-unit counts that the threshold noise is added to sum to {}, but with every unit limited to Cu = {} groups they can sum to at most {} ({} units)",
                                total, sc.params.cu, bound, per_unit.len()
                            ),
                            witness: json!({"total": total, "bound": bound, "cu": sc.params.cu, "units": per_unit.len()}),
                        });
                    }
                }
            }
        }
    }
    let singleton = holders.values().any(|s| s.len() == 1);
    let shape = mini_shape(
        sc,
        &format!(
            "{}|{}|{}|cu{}",
            if cap_checked { "cap_exercised" } else { "cap_idle" },
            if singleton { "singletons" } else { "no_singletons" },
            if n_released_max > 0 { "some_released" } else { "none_released" },
            sc.params.cu.min(4)
        ),
    );
    if violations.is_empty() {
        (Verdict::Ok, Some(shape))
    } else {
        (Verdict::Violations(violations), Some(shape))
    }
}
