//! The deployed pipeline under simulation: catalogue + privacy unit + parameters + SQL ->
//! `rewrite_with_differential_privacy` -> SQL text for the simulated engine.
use crate::{scenario::Scenario, translator::SimTranslator};
use qrlew::{
    ast,
    builder::With,
    dialect_translation::RelationWithTranslator,
    differential_privacy::DpEvent,
    namer,
    relation::Relation,
    sql::parse,
};

pub struct Compiled {
    pub original: Relation,
    pub dp: Relation,
    pub event: DpEvent,
}

#[derive(Debug, Clone, PartialEq)]
pub enum CompileError {
    Parse(String),
    Relation(String),
    /// The DP compiler refused the query (a legitimate outcome).
    Refused(String),
    Panic(String),
}

/// Put the process-global compile state where the scenario says (fault F-hist).
pub fn apply_compile_state(sc: &Scenario) {
    if sc.compile.reset_first {
        namer::reset();
    }
    for (prefix, n) in &sc.compile.burn {
        for _ in 0..*n {
            let _ = namer::new_id(prefix.as_str());
        }
    }
}

fn panic_text(p: Box<dyn std::any::Any + Send>) -> String {
    if let Some(s) = p.downcast_ref::<&str>() {
        s.to_string()
    } else if let Some(s) = p.downcast_ref::<String>() {
        s.clone()
    } else {
        "<non-string panic>".to_string()
    }
}

pub fn compile(sc: &Scenario) -> Result<Compiled, CompileError> {
    let sc = sc.clone();
    let r = std::panic::catch_unwind(move || {
        apply_compile_state(&sc);
        let relations = sc.relations();
        let query = parse(&sc.sql).map_err(|e| CompileError::Parse(e.to_string()))?;
        let original = Relation::try_from(query.with(&relations))
            .map_err(|e| CompileError::Relation(e.to_string()))?;
        let rwe = original
            .rewrite_with_differential_privacy(
                &relations,
                sc.synthetic_data(),
                sc.privacy_unit(),
                sc.params.dp(),
            )
            .map_err(|e| CompileError::Refused(e.to_string()))?;
        let dp = rwe.relation().clone();
        let event = rwe.dp_event().clone();
        Ok(Compiled { original, dp, event })
    });
    match r {
        Ok(x) => x,
        Err(p) => Err(CompileError::Panic(panic_text(p))),
    }
}

pub fn render(rel: &Relation) -> String {
    ast::Query::from(RelationWithTranslator(rel, SimTranslator::default())).to_string()
}

pub fn render_native(rel: &Relation) -> String {
    ast::Query::from(RelationWithTranslator(rel, SimTranslator { materialize: false })).to_string()
}

/// Flatten a DpEvent into its leaves.
pub fn event_leaves(e: &DpEvent, out: &mut Vec<DpEvent>) {
    match e {
        DpEvent::NoOp => {}
        DpEvent::Composed { events } => {
            for x in events {
                event_leaves(x, out)
            }
        }
        other => out.push(other.clone()),
    }
}
