//! C02 - no un-noised path from protected tables to the result (DESIGN 3, C02).
//! (a) dynamic noise-taint over coupled executions of the returned relation;
//! (b) label-level invariant monitored on every simulated compile.
use crate::c01;
use simcommon::engine::{DrawMode, DrawPlan, ResultSet};
use crate::oracle::*;
use crate::owners;
use crate::pipeline;
use simcommon::scenario::{Scenario, TableSpec};
use qrlew::{
    builder::With,
    privacy_unit_tracking::Strategy,
    relation::{Relation, Variant as _},
    rewriting::rewriting_rule::{
        Property, RelationWithRewritingRule, RewritingRulesEliminator, RewritingRulesSelector, RewritingRulesSetter,
    },
    sql::parse,
};
use serde_json::json;
use std::collections::BTreeSet;

fn column_multiset(rs: &ResultSet, i: usize) -> Vec<String> {
    let mut v: Vec<String> = rs
        .rows
        .iter()
        .map(|r| match &r[i] {
            simcommon::scenario::Cell::Float(f) => format!("f:{:?}", f),
            other => other.key(),
        })
        .collect();
    v.sort();
    v
}

/// Is there a path from `n` down to a protected table (not redirected to its synthetic twin)
/// that crosses no DifferentiallyPrivate-labelled node?
fn exposed(n: &RelationWithRewritingRule, protected: &BTreeSet<String>, bad: &mut Vec<String>) -> bool {
    let label = n.attributes().output().clone();
    let below = match n.relation() {
        Relation::Table(t) => {
            let is_prot = protected.contains(t.name());
            if is_prot && matches!(label, Property::Public | Property::Published | Property::DifferentiallyPrivate) {
                bad.push(format!("protected table {} is labelled {}", t.name(), label));
            }
            is_prot && label != Property::SyntheticData
        }
        _ => {
            let mut any = false;
            for i in n.inputs() {
                if exposed(i, protected, bad) {
                    any = true;
                }
            }
            any
        }
    };
    if label == Property::DifferentiallyPrivate {
        // the noise-adding aggregation: nothing below it is exposed above it. It must be a Reduce.
        if !matches!(n.relation(), Relation::Reduce(_)) && below {
            bad.push(format!("non-aggregating node {} over protected rows is labelled DP", n.relation().name()));
        }
        return false;
    }
    if below && matches!(label, Property::Public | Property::Published | Property::SyntheticData) && !matches!(n.relation(), Relation::Table(_)) {
        bad.push(format!("node {} is labelled {} with an un-noised path to a protected table", n.relation().name(), label));
    }
    below
}

pub fn check(sc: &Scenario, ex: &mut Exec) -> (Verdict, Option<String>) {
    let mut violations = vec![];
    // relation names of the protected tables (an entry may use the path or the relation name)
    let protected: BTreeSet<String> = sc
        .pu
        .entries
        .iter()
        .map(|e| sc.table(&e.table).map(|t| t.relation_name().to_string()).unwrap_or(e.table.clone()))
        .collect();

    // ---- (b) label-level reading on every candidate derivation the public pipeline returns
    let label_result = {
        let sc2 = sc.clone();
        let prot = protected.clone();
        std::panic::catch_unwind(move || -> Result<(usize, Vec<String>), String> {
            pipeline::apply_compile_state(&sc2);
            let relations = sc2.relations();
            let query = parse(&sc2.sql).map_err(|e| e.to_string())?;
            let relation = Relation::try_from(query.with(&relations)).map_err(|e| e.to_string())?;
            let with_rules = relation.set_rewriting_rules(RewritingRulesSetter::new(
                &relations,
                sc2.synthetic_data(),
                sc2.privacy_unit(),
                sc2.params.dp(),
                Strategy::Hard,
            ));
            let with_rules = with_rules.map_rewriting_rules(RewritingRulesEliminator);
            let candidates = with_rules.select_rewriting_rules(RewritingRulesSelector);
            let mut bad = vec![];
            let mut n = 0;
            for c in &candidates {
                if matches!(c.attributes().output(), Property::Public | Property::Published | Property::DifferentiallyPrivate | Property::SyntheticData) {
                    n += 1;
                    let mut b = vec![];
                    let root_exposed = exposed(c, &prot, &mut b);
                    if root_exposed {
                        b.push(format!("root labelled {} has an un-noised path to a protected table", c.attributes().output()));
                    }
                    bad.extend(b);
                }
            }
            Ok((n, bad))
        })
    };
    let mut candidates_walked = 0usize;
    match label_result {
        Ok(Ok((n, bad))) => {
            candidates_walked = n;
            if let Some(first) = bad.first() {
                violations.push(Violation {
                    property: "C02".into(),
                    invariant: "labels".into(),
                    class: "unclassified".into(),
                    detail: format!("{} ({} finding(s) over {} acceptable derivation(s))", first, bad.len(), n),
                    witness: json!({"findings": bad.iter().take(5).collect::<Vec<_>>()}),
                });
            }
        }
        Ok(Err(_)) => return (Verdict::Skip("rejected".into()), None),
        Err(_) => {
            ex.stats.probe("compile_panic");
            return (Verdict::Skip("compile_panic".into()), None);
        }
    }
    ex.stats.probe_n("acceptable_derivations_walked", candidates_walked as u64);

    // ---- (a) dynamic noise-taint of the returned relation
    let compiled = match pipeline::compile(sc) {
        Ok(c) => c,
        Err(pipeline::CompileError::Refused(_)) => {
            // a refusal is a legitimate outcome (e.g. plain projection of protected rows)
            ex.stats.probe("refused");
            if violations.is_empty() {
                return (Verdict::Ok, Some(coarse_shape(sc, "refused")));
            }
            return (Verdict::Violations(violations), Some(coarse_shape(sc, "refused")));
        }
        Err(pipeline::CompileError::Panic(_)) => {
            ex.stats.probe("compile_panic");
            return (Verdict::Skip("compile_panic".into()), None);
        }
        Err(_) => return (Verdict::Skip("rejected".into()), None),
    };
    // ---- (c) static column lineage of the returned relation: no output column may carry a value
    // dependency on a protected table column that crosses neither a Gaussian-noise expression nor
    // the key-release map (decided on the IR, so also when the engine cannot run the query)
    let leaks = crate::ir::unnoised_outputs(&compiled.dp, &|path: &str| sc.is_protected(path));
    if let Some((col, w)) = leaks.first() {
        violations.push(Violation {
            property: "C02".into(),
            invariant: "static_lineage".into(),
            class: "unclassified".into(),
            detail: format!("output column {} of the returned relation depends on protected rows through a path with no noise-adding aggregation: {}", col, w),
            witness: json!({"column": col, "lineage": w, "leaking_columns": leaks.len()}),
        });
        return (Verdict::Violations(violations), Some(coarse_shape(sc, "static_leak")));
    }
    let own = owners::owners(sc);
    let units = c01::pick_units(sc, &own, if sc.depth > 0 { 8 } else { 3 });
    let dp_sql = pipeline::render(&compiled.dp);
    let tabs: Vec<&TableSpec> = sc.tables.iter().chain(sc.synthetic.iter()).collect();
    let mut eng = match ex.engine(&tabs) {
        Ok(e) => e,
        Err(e) => return (Verdict::Skip(format!("engine_setup:{}", e)), None),
    };
    let base = DrawPlan::neutral(sc.engine_seed).with_cap(DrawMode::Inc).with_row_id(DrawMode::Inc);
    let mut plans: Vec<(String, DrawPlan)> = vec![("neutral".into(), base.clone())];
    for z in [0.5, 1.0, 2.0, 4.0, 8.0, 16.0] {
        plans.push((format!("z+{}", z), base.clone().with_agg_z(z).with_thr_z(z)));
        plans.push((format!("z-{}", z), base.clone().with_agg_z(-z).with_thr_z(-z)));
    }
    // steps that are small against the clamp range of every noised column: a column derived from
    // several clamped cells (variance) can read the same at both clamp ends
    let scan = crate::ir::scan(&compiled.dp);
    let zmin = scan
        .noise_maps
        .iter()
        .flat_map(|m| m.cols.iter())
        .filter(|c| c.sigma > 0.0 && c.sigma.is_finite())
        .filter_map(|c| c.clamp.map(|(lo, hi)| (hi - lo) / (8.0 * c.sigma)))
        .filter(|z| *z > 0.0)
        .fold(f64::INFINITY, f64::min);
    if zmin.is_finite() && zmin < 0.5 {
        for z in [zmin, zmin / 16.0] {
            plans.push((format!("z+{:e}", z), base.clone().with_agg_z(z).with_thr_z(z)));
            plans.push((format!("z-{:e}", z), base.clone().with_agg_z(-z).with_thr_z(-z)));
        }
    }
    // one noise site at a time: a derived column clamped at zero (variance) may move only when
    // its inputs move apart
    for m in &scan.noise_maps {
        for c in &m.cols {
            if c.sigma > 0.0 {
                let small = c.clamp.map(|(lo, hi)| (hi - lo) / (8.0 * c.sigma)).filter(|z| *z > 0.0 && *z < 1.0);
                for z in [Some(1.0), small].into_iter().flatten() {
                    plans.push((format!("site{}+{:e}", c.u1_site, z), base.clone().with_site_z(c.u1_site, c.u2_site, z)));
                    plans.push((format!("site{}-{:e}", c.u1_site, z), base.clone().with_site_z(c.u1_site, c.u2_site, -z)));
                }
            }
        }
    }
    plans.push(("release_all".into(), base.clone().release_all()));
    plans.push(("release_none".into(), base.clone().release_none()));
    // the noise reaches every cell it is meant for: each noise map, executed on D with its own
    // draws forced to +1 and to -1 sigma, must give two different values in every noised cell
    // (a clamp can hold one of them, not both, unless it is a single point). A cell that reads the
    // same under both draws is published without noise whatever the other cells do.
    for m in &scan.noise_maps {
        let sql = pipeline::render(&m.map);
        let mut up = base.clone().release_all();
        let mut down = base.clone().release_all();
        for c in &m.cols {
            up = up.with_site_z(c.u1_site, c.u2_site, 1.0);
            down = down.with_site_z(c.u1_site, c.u2_site, -1.0);
        }
        let (Ok((ru, _)), Ok((rd, _))) = (ex.query(&mut eng, "noise_map_up", &sql, &up), ex.query(&mut eng, "noise_map_down", &sql, &down)) else {
            ex.stats.probe("noise_reach_skipped_engine_gap");
            continue;
        };
        // what the pre-noise values predict: a value far outside the clamp (sizes declared too
        // small) legitimately reads the same boundary under both draws
        let Ok((rx, _)) = ex.query(&mut eng, "noise_map_input", &pipeline::render(&m.input), &base) else { continue };
        if ru.rows.len() != rd.rows.len() || rx.rows.len() != ru.rows.len() {
            continue;
        }
        for c in &m.cols {
            let (Some(iu), Some(id), Some(ix)) = (ru.col(&c.name), rd.col(&c.name), c.input_col.as_deref().and_then(|n| rx.col(n))) else { continue };
            if !(c.sigma > 0.0) || !c.sigma.is_finite() {
                continue;
            }
            let (lo, hi) = c.clamp.unwrap_or((f64::NEG_INFINITY, f64::INFINITY));
            let expected_same = rx
                .rows
                .iter()
                .filter(|r| {
                    let x = num(&r[ix]).unwrap_or(0.0);
                    (x + c.sigma).clamp(lo, hi) == (x - c.sigma).clamp(lo, hi) || !(c.sigma > 1e-9 * (x.abs() + 1.0))
                })
                .count();
            let observed_same = ru
                .rows
                .iter()
                .zip(rd.rows.iter())
                .filter(|(a, b)| match (num(&a[iu]), num(&b[id])) {
                    (Some(x), Some(y)) => x == y,
                    (None, None) => true,
                    _ => false,
                })
                .count();
            if observed_same > expected_same {
                violations.push(Violation {
                    property: "C02".into(),
                    invariant: "noise_does_not_reach_cell".into(),
                    class: "unclassified".into(),
                    detail: format!(
                        "column {} of a noise-adding map reads the same in {} cell(s) whether its Gaussian draw is forced to +1 or to -1 sigma (sigma {}), although the pre-noise values and the clamp {:?} explain that for {} cell(s) only: a cell is published without noise",
                        c.name, observed_same, c.sigma, c.clamp, expected_same
                    ),
                    witness: json!({"column": c.name, "cells_unmoved": observed_same, "cells_explained_by_clamp": expected_same, "sigma": c.sigma, "clamp": c.clamp}),
                });
            }
        }
        if !violations.is_empty() {
            return (Verdict::Violations(violations), Some(coarse_shape(sc, "noise_reach")));
        }
    }
    let mut on_d: Vec<ResultSet> = vec![];
    for (name, p) in &plans {
        match ex.query(&mut eng, &format!("dp_D_{}", name), &dp_sql, p) {
            Err(e) if on_d.is_empty() => {
                // the engine rejects the rendered query (e.g. two CTEs with one name): the label
                // and lineage invariants above were decided on the IR, the dynamic taint cannot be
                ex.stats.probe("dynamic_taint_skipped_engine_gap");
                ex.log.push(format!("engine gap {}", short(&e)));
                return (Verdict::Ok, Some(coarse_shape(sc, "static_only")));
            }
            Ok((rs, _)) => {
                if std::env::var("VERIF_DEBUG").is_ok() {
                    eprintln!("plan {} -> {:?}", name, rs.rows);
                }
                on_d.push(rs)
            }
            Err(e) => return (Verdict::Skip(format!("engine_gap_dp:{}", short(&e))), None),
        }
    }
    let ncols = on_d[0].columns.len();
    let mut noise_dep = vec![false; ncols];
    for rs in on_d.iter().skip(1) {
        for i in 0..ncols {
            if column_multiset(rs, i) != column_multiset(&on_d[0], i) {
                noise_dep[i] = true;
            }
        }
    }
    // the same reading for the EXISTENCE of rows: how many rows are published may depend on the
    // protected rows only through a noised quantity (a thresholded count)
    let mut rows_noise_dep = on_d.iter().skip(1).any(|rs| rs.rows.len() != on_d[0].rows.len());
    let mut rows_data_dep: Option<String> = None;
    // data dependence: same forced schedule, one unit's rows removed from the protected tables
    let coupled: Vec<usize> = vec![0, 3, plans.len() - 2]; // neutral, z+2, release_all
    let mut data_dep = vec![false; ncols];
    let mut witness_unit = vec![String::new(); ncols];
    for u in &units {
        let t2 = owners::without_unit(sc, &own, u);
        let tabs2: Vec<&TableSpec> = t2.iter().chain(sc.synthetic.iter()).collect();
        let mut eng2 = match ex.engine(&tabs2) {
            Ok(e) => e,
            Err(e) => return (Verdict::Skip(format!("engine_setup:{}", e)), None),
        };
        let mut first_minus: Option<ResultSet> = None;
        for pi in &coupled {
            match ex.query(&mut eng2, &format!("dp_D_minus_u_{}", plans[*pi].0), &dp_sql, &plans[*pi].1) {
                Ok((rs, _)) => {
                    if std::env::var("VERIF_DEBUG").is_ok() {
                        eprintln!("minus {} plan {} -> {:?}", u, plans[*pi].0, rs.rows);
                    }
                    // the noise may be invisible on D (a variance held at its clamp by the data)
                    // and visible on the neighbouring instance: either way the column is noised
                    if rows_data_dep.is_none() && rs.rows.len() != on_d[*pi].rows.len() {
                        rows_data_dep = Some(format!("{} under {} ({} rows instead of {})", u, plans[*pi].0, rs.rows.len(), on_d[*pi].rows.len()));
                    }
                    match &first_minus {
                        None => first_minus = Some(rs.clone()),
                        Some(f) => {
                            if rs.rows.len() != f.rows.len() {
                                rows_noise_dep = true;
                            }
                            for i in 0..ncols {
                                if column_multiset(&rs, i) != column_multiset(f, i) {
                                    noise_dep[i] = true;
                                }
                            }
                        }
                    }
                    for i in 0..ncols {
                        if !data_dep[i] && column_multiset(&rs, i) != column_multiset(&on_d[*pi], i) {
                            data_dep[i] = true;
                            witness_unit[i] = format!("{} under {}", u, plans[*pi].0);
                        }
                    }
                }
                Err(e) => return (Verdict::Skip(format!("engine_gap_dp:{}", short(&e))), None),
            }
        }
    }
    for i in 0..ncols {
        if data_dep[i] && !noise_dep[i] {
            violations.push(Violation {
                property: "C02".into(),
                invariant: "data_dependent_not_noise_dependent".into(),
                class: "unclassified".into(),
                detail: format!(
                    "output column {} changes when the rows of unit {} are removed from the protected tables, but no schedule of the engine's noise draws (0, +-0.5 .. +-16 sigma, release all / none) changes it: protected rows reach it without noise",
                    on_d[0].columns[i], witness_unit[i]
                ),
                witness: json!({"column": on_d[0].columns[i], "unit": witness_unit[i], "rows_on_D": on_d[0].rows.len()}),
            });
        }
    }
    if let (Some(w), false) = (&rows_data_dep, rows_noise_dep) {
        violations.push(Violation {
            property: "C02".into(),
            invariant: "row_set_data_dependent_not_noise_dependent".into(),
            class: "unclassified".into(),
            detail: format!(
                "the number of published rows changes when the rows of unit {} are removed from the protected tables, but no schedule of the engine's noise draws (0, +-0.5 .. +-16 sigma, release all / none) changes it: which rows exist is an exact function of protected rows",
                w
            ),
            witness: json!({"unit": w, "rows_on_D": on_d[0].rows.len()}),
        });
    }
    let any_data = data_dep.iter().any(|b| *b);
    let kind = if any_data { "data_dependent" } else if noise_dep.iter().any(|b| *b) { "noise_only" } else { "constant" };
    if any_data {
        ex.stats.probe("runs_with_a_data_dependent_column");
    }
    let shape = coarse_shape(sc, kind);
    if violations.is_empty() {
        (Verdict::Ok, Some(shape))
    } else {
        (Verdict::Violations(violations), Some(shape))
    }
}
