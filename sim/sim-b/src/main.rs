//! Sim-B: the deployed pipeline (compiler -> renderer -> engine) under a simulator-owned random
//! source (DESIGN 2.2). Decides C01, C02, C03, C04, C09.
mod budget;
mod c01;
mod c02;
mod c03;
mod c04;
mod c09;
use simcommon::{engine, gen, query, scenario, translator};
mod ir;
mod minimise;
mod oracle;
mod owners;
mod pipeline;

use oracle::{Exec, RunRecord, Stats, Verdict};
use scenario::Scenario;
use std::io::Write;

fn check_one(prop: &str, sc: &Scenario, ex: &mut Exec) -> (Verdict, Option<String>) {
    match prop {
        "C09" => c09::check(sc, ex),
        "C01" => c01::check(sc, ex),
        "C02" => c02::check(sc, ex),
        "C03" => c03::check(sc, ex),
        "C04" => c04::check(sc, ex),
        other => (Verdict::Skip(format!("unknown property {}", other)), None),
    }
}

/// One run = one (seed, run index): executed in a fresh thread so that the hash keys of every
/// map it creates are a function of the scenario's hash seed alone (getrandom shim).
fn run_scenario(prop: &str, sc: Scenario, keep_scenario: bool) -> RunRecord {
    std::env::set_var("VERIF_HASH_SEED", sc.compile.hash_seed.to_string());
    simcommon::new_hash_epoch();
    let prop_s = prop.to_string();
    let handle = std::thread::Builder::new()
        .stack_size(256 << 20)
        .spawn(move || {
            let mut stats = Stats::default();
            let mut log: Vec<String> = vec![format!("run seed={} run={} prop={}", sc.seed, sc.run, prop_s)];
            log.push(format!("sql {}", sc.sql));
            for t in sc.tags.iter().filter(|t| t.starts_with("fault:")) {
                stats.fault(&t[6..]);
            }
            let (verdict, shape) = {
                let mut ex = Exec { stats: &mut stats, log: &mut log };
                check_one(&prop_s, &sc, &mut ex)
            };
            log.push(format!("verdict {}", match &verdict { Verdict::Ok => "ok".to_string(), Verdict::Skip(r) => format!("skip:{}", r), Verdict::Violations(v) => format!("violations:{}", v.iter().map(|x| x.invariant.clone()).collect::<Vec<_>>().join(",")) }));
            let keep = keep_scenario || matches!(verdict, Verdict::Violations(_));
            let verdict_is_ok = matches!(verdict, Verdict::Ok);
            RunRecord {
                seed: sc.seed,
                run: sc.run,
                property: prop_s,
                verdict,
                shape,
                tags: sc.tags.clone(),
                stats,
                digest: oracle::digest(&log),
                notes: if matches!(verdict_is_ok, true) { vec![] } else { log.clone() },
                scenario: if keep { Some(sc) } else { None },
            }
        })
        .unwrap();
    handle.join().expect("run thread panicked (harness error)")
}

fn arg<'a>(args: &'a [String], name: &str) -> Option<&'a str> {
    args.iter().position(|a| a == name).and_then(|i| args.get(i + 1)).map(|s| s.as_str())
}

fn main() {
    let args: Vec<String> = std::env::args().collect();
    // qrlew logs through `log`; keep panics of catch_unwind'ed compiles quiet
    std::panic::set_hook(Box::new(|_| {}));
    match args.get(1).map(|s| s.as_str()) {
        Some("run") => {
            let prop = arg(&args, "--prop").expect("--prop");
            let seed: u64 = arg(&args, "--seed").unwrap_or("1").parse().unwrap();
            let from: u64 = arg(&args, "--from").unwrap_or("0").parse().unwrap();
            let to: u64 = arg(&args, "--to").unwrap_or("10").parse().unwrap();
            let stride: u64 = arg(&args, "--stride").unwrap_or("1").parse().unwrap();
            let offset: u64 = arg(&args, "--offset").unwrap_or("0").parse().unwrap();
            let samples: u64 = arg(&args, "--samples").unwrap_or("2").parse().unwrap();
            let deadline: Option<f64> = arg(&args, "--deadline-s").map(|s| s.parse().unwrap());
            let depth: u32 = arg(&args, "--depth").unwrap_or("0").parse().unwrap();
            // self-test: execute every run `repeat` times in a row in this process
            let repeat: u64 = arg(&args, "--repeat").unwrap_or("1").parse().unwrap();
            let mut rep = 0u64;
            let out_path = arg(&args, "--out").expect("--out");
            let mut out = std::io::BufWriter::new(std::fs::File::create(out_path).unwrap());
            let start = std::time::Instant::now();
            let mut kept = 0u64;
            let mut i = from + offset;
            while i < to {
                // wall-clock is read only to stop starting new runs; a run is never cut
                if let Some(d) = deadline {
                    if start.elapsed().as_secs_f64() > d {
                        break;
                    }
                }
                let mut g = gen::generate(seed, i, prop);
                g.scenario.depth = depth;
                let rec = run_scenario(prop, g.scenario, false);
                let mut rec = rec;
                if rec.scenario.is_none() && kept < samples && matches!(rec.verdict, Verdict::Ok) {
                    // keep a few full scenarios as evidence samples
                    let mut sc = gen::generate(seed, i, prop).scenario;
                    sc.depth = depth;
                    rec.scenario = Some(sc);
                    kept += 1;
                }
                serde_json::to_writer(&mut out, &rec).unwrap();
                out.write_all(b"\n").unwrap();
                out.flush().unwrap();
                rep += 1;
                if rep >= repeat {
                    rep = 0;
                    i += stride;
                }
            }
            out.flush().unwrap();
        }
        Some("replay") => {
            let file = arg(&args, "--file").expect("--file");
            let text = std::fs::read_to_string(file).expect("read replay file");
            let v: serde_json::Value = serde_json::from_str(&text).expect("json");
            let prop = v["property"].as_str().expect("property").to_string();
            let sc: Scenario = serde_json::from_value(v["scenario"].clone()).expect("scenario");
            let rec = run_scenario(&prop, sc, true);
            println!("{}", serde_json::to_string(&rec).unwrap());
            if let Verdict::Violations(_) = rec.verdict {
                std::process::exit(1);
            }
        }
        Some("minimise") => {
            let file = arg(&args, "--file").expect("--file");
            let out = arg(&args, "--out").expect("--out");
            let text = std::fs::read_to_string(file).expect("read replay file");
            let v: serde_json::Value = serde_json::from_str(&text).expect("json");
            let prop = v["property"].as_str().expect("property").to_string();
            let invariant = v["invariant"].as_str().expect("invariant").to_string();
            let class = v["class"].as_str().expect("class").to_string();
            let sc: Scenario = serde_json::from_value(v["scenario"].clone()).expect("scenario");
            let (small, tried) = minimise::minimise(check_one, &prop, &sc, &invariant, &class);
            let rec = run_scenario(&prop, small, true);
            let mut o = serde_json::to_value(&rec).unwrap();
            o["invariant"] = serde_json::json!(invariant);
            o["class"] = serde_json::json!(class);
            o["minimise_candidates"] = serde_json::json!(tried);
            std::fs::write(out, serde_json::to_string_pretty(&o).unwrap()).unwrap();
        }
        Some("exec") => {
            // debugging aid: execute original, DP and every pre-noise relation under the neutral plan
            let file = arg(&args, "--file").expect("--file");
            let v: serde_json::Value = serde_json::from_str(&std::fs::read_to_string(file).unwrap()).unwrap();
            let sc: Scenario = serde_json::from_value(v["scenario"].clone()).expect("scenario");
            let c = pipeline::compile(&sc).map_err(|e| format!("{:?}", e)).unwrap();
            let tabs: Vec<&scenario::TableSpec> = sc.tables.iter().chain(sc.synthetic.iter()).collect();
            let mut eng = engine::Engine::new(&tabs).unwrap();
            let plan = engine::DrawPlan::neutral(sc.engine_seed).release_all().with_cap(engine::DrawMode::Inc).with_row_id(engine::DrawMode::Inc);
            println!("original: {:?}", eng.query(&sc.sql, &plan).map(|x| x.0.rows));
            println!("dp: {:?}", eng.query(&pipeline::render(&c.dp), &plan).map(|x| x.0.rows));
            let scan = ir::scan(&c.dp);
            for m in &scan.noise_maps {
                let r = eng.query(&pipeline::render(&m.input), &plan).map(|x| (x.0.columns, x.0.rows));
                println!("pre-noise of {:?}: {:?}", m.cols.iter().map(|c| (c.name.clone(), c.sigma, c.clamp)).collect::<Vec<_>>(), r);
            }
            for sm in ir::scale_maps(&c.dp) {
                let r = eng.query(&pipeline::render(&sm.map), &plan).map(|x| (x.0.columns, x.0.rows));
                println!("scale factors {:?}: {:?}", sm.factors, r);
            }
        }
        Some("ir") => {
            let file = arg(&args, "--file").expect("--file");
            let v: serde_json::Value = serde_json::from_str(&std::fs::read_to_string(file).unwrap()).unwrap();
            let sc: Scenario = serde_json::from_value(v["scenario"].clone()).expect("scenario");
            debug_ir(&sc);
        }
        Some("hashprobe") => {
            // self-test of the getrandom shim: iteration order of fresh maps in a fresh thread
            let h = std::thread::spawn(|| {
                let m: std::collections::HashSet<u32> = (0..64).collect();
                let a: Vec<String> = m.iter().take(8).map(|x| x.to_string()).collect();
                let m2: std::collections::HashMap<String, u32> = (0..64).map(|i| (format!("k{}", i), i)).collect();
                let b: Vec<String> = m2.keys().take(4).cloned().collect();
                format!("{} | {}", a.join(","), b.join(","))
            });
            println!("{}", h.join().unwrap());
        }
        Some("gen") => {
            let prop = arg(&args, "--prop").expect("--prop");
            let seed: u64 = arg(&args, "--seed").unwrap_or("1").parse().unwrap();
            let run: u64 = arg(&args, "--run").unwrap_or("0").parse().unwrap();
            let g = gen::generate(seed, run, prop);
            println!("{}", serde_json::to_string_pretty(&g.scenario).unwrap());
        }
        Some("show") => {
            // harness maintenance aid: what the parser makes of a replay file's query (stock
            // rendering of the parsed relation) and what the DP compiler returns for it
            let file = arg(&args, "--file").expect("--file");
            let v: serde_json::Value = serde_json::from_str(&std::fs::read_to_string(file).unwrap()).unwrap();
            let sc: Scenario = serde_json::from_value(v["scenario"].clone()).expect("scenario");
            println!("-- query\n{}", sc.sql);
            match pipeline::compile(&sc) {
                Ok(c) => {
                    println!("-- parsed relation, rendered\n{}", pipeline::render_native(&c.original));
                    println!("-- DP relation, rendered\n{}", pipeline::render_native(&c.dp));
                    println!("-- event\n{:?}", c.event);
                }
                Err(e) => println!("-- compile: {:?}", e),
            }
        }
        _ => {
            eprintln!("usage: sim-b run|replay|gen|show ...");
            std::process::exit(2);
        }
    }
}

#[allow(dead_code)]
pub fn debug_ir(sc: &Scenario) {
    match pipeline::compile(sc) {
        Ok(c) => {
            for n in ir::nodes(&c.dp) {
                println!("{}", n);
            }
            println!("{}", c.event);
            println!("{}", pipeline::render(&c.dp));
        }
        Err(e) => println!("{:?}", e),
    }
}
