mod engine;
mod ir;
mod pipeline;
mod scenario;
mod translator;

use engine::{DrawPlan, Engine};
use scenario::*;

fn smoke() {
    let users = TableSpec {
        name: "users".into(),
        cols: vec![
            ColSpec { name: "id".into(), ty: ColType::IntRange { lo: 0, hi: 1000 }, optional: false, unique: true },
            ColSpec { name: "age".into(), ty: ColType::IntRange { lo: 0, hi: 100 }, optional: false, unique: false },
            ColSpec { name: "city".into(), ty: ColType::TextValues(vec!["NY".into(), "LA".into()]), optional: false, unique: false },
        ],
        size: 100,
        rows: (0..20)
            .map(|i| vec![Cell::Int(i), Cell::Int(20 + i), Cell::Text(if i % 2 == 0 { "NY".into() } else { "LA".into() })])
            .collect(),
    };
    let orders = TableSpec {
        name: "orders".into(),
        cols: vec![
            ColSpec { name: "id".into(), ty: ColType::IntRange { lo: 0, hi: 10000 }, optional: false, unique: true },
            ColSpec { name: "user_id".into(), ty: ColType::IntRange { lo: 0, hi: 1000 }, optional: false, unique: false },
            ColSpec { name: "amount".into(), ty: ColType::FloatRange { lo: 0.0, hi: 50.0 }, optional: true, unique: false },
            ColSpec { name: "qty".into(), ty: ColType::IntRange { lo: 0, hi: 30 }, optional: false, unique: false },
        ],
        size: 200,
        rows: (0..60)
            .map(|i| vec![Cell::Int(i), Cell::Int(i % 20), if i % 7 == 0 { Cell::Null } else { Cell::Float(i as f64 * 0.5) }, Cell::Int(i % 5)])
            .collect(),
    };
    let sc = Scenario {
        seed: 0,
        run: 0,
        tables: vec![users, orders],
        synthetic: vec![],
        pu: PuSpec {
            entries: vec![
                PuEntry { table: "users".into(), path: vec![], field: "id".into(), weight: None },
                PuEntry { table: "orders".into(), path: vec![("user_id".into(), "users".into(), "id".into())], field: "id".into(), weight: None },
            ],
            hash: false,
        },
        params: Params { epsilon: 1.0, delta: 1e-4, tau_share: 0.5, max_mult: 100.0, max_mult_share: 0.1, cu: 3 },
        sql: std::env::args().nth(2).unwrap_or("SELECT qty, count(*) AS c, sum(amount) AS s, avg(amount) AS a FROM orders GROUP BY qty".into()),
        compile: CompileState { reset_first: true, burn: vec![], hash_seed: 1 },
        engine_seed: 7,
        tags: vec![],
    };
    let c = match pipeline::compile(&sc) {
        Ok(c) => c,
        Err(e) => {
            println!("compile error: {:?}", e);
            return;
        }
    };
    println!("event: {}", c.event);
    let sql = pipeline::render(&c.dp);
    println!("{}", sql);
    let scan = ir::scan(&c.dp);
    println!("nodes {} tables {:?}", scan.nodes, scan.tables);
    for nm in &scan.noise_maps {
        println!("noise map {} cols {:?}", qrlew::relation::Variant::name(&nm.map), nm.cols);
    }
    for t in &scan.thresholds {
        println!("threshold col {} tau {} strict {}", t.column, t.tau, t.strict);
    }
    println!("other random: {:?} unrecognised: {:?}", scan.other_random, scan.unrecognised);
    let tabs: Vec<&TableSpec> = sc.tables.iter().collect();
    let mut eng = Engine::new(&tabs).unwrap();
    for plan in [DrawPlan::neutral(1), DrawPlan::neutral(1).release_all(), DrawPlan::seeded(1)] {
        match eng.query(&sql, &plan) {
            Ok((rs, log)) => {
                println!("{:?}", rs.columns);
                for r in &rs.rows {
                    println!("  {:?}", r);
                }
                for (k, v) in &log {
                    println!("  draw {:?} calls {} first {:?}", k, v.calls, v.first);
                }
            }
            Err(e) => println!("engine error: {}", e),
        }
    }
    let (rs, _) = eng.query(&sc.sql, &DrawPlan::neutral(1)).unwrap();
    println!("original: {:?}", rs.rows);
}

fn main() {
    let a: Vec<String> = std::env::args().collect();
    if a.get(1).map(|s| s.as_str()) == Some("smoke") {
        smoke();
    }
}
