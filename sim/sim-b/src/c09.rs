//! C09 - DP rewriting is exact when noise and clipping are inactive (DESIGN 3, C09).
use simcommon::engine::{DrawMode, DrawPlan, ResultSet};
use crate::ir;
use crate::oracle::*;
use crate::pipeline::{self, CompileError};
use simcommon::query::AggFn;
use simcommon::scenario::{Cell, Scenario, TableSpec, ROW_PRIVACY};
use serde_json::json;

fn close(a: f64, b: f64, rel: f64, abs: f64) -> bool {
    (a - b).abs() <= rel * (1.0 + a.abs().max(b.abs())) + abs
}

pub fn check(sc: &Scenario, ex: &mut Exec) -> (Verdict, Option<String>) {
    let q = match &sc.query {
        Some(q) if q.plain.is_none() && q.raw_sql.is_none() => q.clone(),
        _ => return (Verdict::Skip("no_query_spec".into()), None),
    };
    if q.from.iter().any(|f| f.kind == "RIGHT JOIN") {
        // an outer join that preserves rows of a public table without protected partner: such rows
        // belong to no privacy unit and the tracked relation leaves them out (their scale factor
        // is NULL). The statement quantifies over joins along the privacy-unit path; this shape
        // is generated for the other properties only.
        return (Verdict::Skip("unitless_rows_preserved_by_outer_join".into()), None);
    }
    if q.keys.iter().any(|k| k.public_set.is_none()) {
        return (Verdict::Skip("private_keys".into()), None);
    }
    // hypothesis of the statement, checked on the instance: the privacy-unit definition assigns
    // every protected row exactly one unit (no orphans, no duplicated parent keys) - otherwise
    // the tracked relation has fewer / more rows than the original by design.
    let own = crate::owners::owners(sc);
    for f in &q.from {
        if let Some(rows) = own.get(&f.table) {
            if rows.iter().any(|s| s.len() != 1) {
                return (Verdict::Skip("ownership_not_functional".into()), None);
            }
        }
    }
    let compiled = match pipeline::compile(sc) {
        Ok(c) => c,
        Err(CompileError::Refused(_)) => return (Verdict::Skip("refused".into()), None),
        Err(CompileError::Parse(e)) | Err(CompileError::Relation(e)) => {
            ex.log.push(format!("rejected {}", e.lines().next().unwrap_or("")));
            return (Verdict::Skip("rejected".into()), None);
        }
        Err(CompileError::Panic(p)) => {
            ex.stats.probe("compile_panic");
            ex.log.push(format!("panic {}", p.lines().next().unwrap_or("")));
            return (Verdict::Skip("compile_panic".into()), None);
        }
    };
    let scan = ir::scan(&compiled.dp);
    if scan.noise_maps.is_empty() {
        // nothing was noised: the compiler answered from public / synthetic data
        return (Verdict::Skip("no_noise_in_rewriting".into()), None);
    }
    if !scan.thresholds.is_empty() && q.keys.iter().any(|k| k.ambiguous) {
        // the compiler chose to threshold a key whose public-valuedness is a matter of reading
        // (allowed: thresholding is the conservative choice); outside the statement's hypothesis
        ex.stats.probe("ambiguous_key_thresholded");
        return (Verdict::Skip("ambiguous_key_thresholded".into()), None);
    }
    let tabs: Vec<&TableSpec> = sc.tables.iter().chain(sc.synthetic.iter()).collect();
    let mut eng = match ex.engine(&tabs) {
        Ok(e) => e,
        Err(e) => return (Verdict::Skip(format!("engine_setup:{}", e)), None),
    };
    let plan = DrawPlan::neutral(sc.engine_seed).with_row_id(DrawMode::Inc).with_cap(DrawMode::Inc);

    // hypothesis: no unit exceeds the multiplicity the clipping bound allows.
    // The allowed multiplicity m is read from a side compile of the same FROM / WHERE / GROUP BY
    // with `count(*)` as only aggregate: its clip constant is m x 1 (the count path does not go
    // through any column-range arithmetic). If every unit has at most m rows in the aggregation
    // input, in-range data cannot be clipped - then a scale factor below 1 is itself a deviation
    // from the true answer that is neither noise nor clipping the hypothesis allows. If some unit
    // has more rows, clipping may legitimately be active and the run is not compared.
    let mut within_allowed_multiplicity = false;
    if q.cte.is_none() {
        if let Some((base_alias, base_table)) = &sc.base {
            let mut side = sc.clone();
            let mut q2 = q.clone();
            q2.aggs = vec![simcommon::query::AggSpec { f: AggFn::CountStar, distinct: false, arg: String::new(), alias: "c__".into(), scale: 1.0 }];
            q2.outer = None;
            q2.having = None;
            side.sql = q2.sql();
            side.query = Some(q2);
            if let Ok(c2) = pipeline::compile(&side) {
                let cs: Vec<f64> = ir::scale_maps(&c2.dp).iter().flat_map(|m| m.factors.iter().map(|f| f.1)).collect();
                if let Some(m_est) = cs.iter().cloned().fold(None, |a: Option<f64>, c| Some(a.map_or(c, |x| x.min(c)))) {
                    let side_t = crate::owners::side_tables(&sc.tables, &own);
                    let tabs2: Vec<&TableSpec> = sc.tables.iter().chain(sc.synthetic.iter()).chain(side_t.iter()).collect();
                    if let Ok(mut e2) = ex.engine(&tabs2) {
                        let rows_sql = format!(
                            "SELECT __w.unit AS u, count(*) AS n FROM {} JOIN \"__own_{}\" AS __w ON __w.rid = {}.rowid{} GROUP BY __w.unit",
                            q.from_clause_flat(), base_table, base_alias, q.where_clause_flat()
                        );
                        if let Ok((rs, _)) = ex.query(&mut e2, "rows_per_unit", &rows_sql, &plan) {
                            let r_max = rs.rows.iter().filter_map(|r| num(&r[1])).fold(0.0, f64::max);
                            let n_rows: f64 = rs.rows.iter().filter_map(|r| num(&r[1])).sum();
                            within_allowed_multiplicity = r_max <= m_est;
                            ex.log.push(format!("multiplicity allowed={} max_rows_per_unit={}", m_est, r_max));
                            // the multiplicity the bound allows is the parameters' (at least
                            // min(max multiplicity, share x rows): declared sizes are upper bounds
                            // of the row counts) unless the unit is unique in the aggregation
                            // input - which the data (consistent with every declared constraint
                            // in this profile) refute as soon as one unit has two rows there
                            let granted = sc.params.max_mult.min(n_rows * sc.params.max_mult_share);
                            // ... provided the instance honours every declared UNIQUE (shared
                            // unit names under a column declared UNIQUE do not)
                            let unique_honoured = sc.tables.iter().all(|t| {
                                t.cols.iter().enumerate().filter(|(_, c)| c.unique).all(|(i, _)| {
                                    let mut seen = std::collections::BTreeSet::new();
                                    t.rows.iter().filter(|r| !r[i].is_null()).all(|r| seen.insert(r[i].key()))
                                })
                            });
                            if unique_honoured && m_est + 1e-9 < granted.min(r_max) {
                                return (
                                    Verdict::Violations(vec![Violation {
                                        property: "C09".into(),
                                        invariant: "multiplicity_below_parameters".into(),
                                        class: "unclassified".into(),
                                        detail: format!(
                                            "the clipping bound allows {} row(s) per privacy unit although the parameters grant min({}, {} x {} rows) and a unit has {} rows in the aggregation input: the unit was taken for unique where it is not, and in-range rows within the granted multiplicity are clipped",
                                            m_est, sc.params.max_mult, sc.params.max_mult_share, n_rows, r_max
                                        ),
                                        witness: json!({"allowed_by_bound": m_est, "max_multiplicity": sc.params.max_mult, "max_multiplicity_share": sc.params.max_mult_share, "rows": n_rows, "max_rows_per_unit": r_max}),
                                    }]),
                                    Some(shape_of(sc, "multiplicity")),
                                );
                            }
                        }
                    }
                }
            }
        }
    }
    for sm in ir::scale_maps(&compiled.dp) {
        let sql = pipeline::render(&sm.map);
        match ex.query(&mut eng, "scale_factors", &sql, &plan) {
            Ok((rs, _)) => {
                for (name, c) in &sm.factors {
                    if let Some(ci) = rs.col(name) {
                        for r in &rs.rows {
                            let v = num(&r[ci]).unwrap_or(1.0);
                            // (a unit sitting exactly on the bound gets 1 / greatest(1, norm / C) with
                            // norm / C = 1 + a few ulps: a factor within 1e-9 of 1 is 1)
                            if *c != 0.0 && (v - 1.0).abs() > 1e-9 {
                                // the rows that public key values without data contribute (left
                                // join with the declared values) form a phantom unit with a NULL
                                // id and one row per empty group: not a privacy unit of the data
                                let phantom = rs
                                    .col(qrlew::privacy_unit_tracking::PrivacyUnit::privacy_unit())
                                    .map_or(false, |i| r[i].is_null());
                                if within_allowed_multiplicity && !phantom {
                                    return (
                                        Verdict::Violations(vec![Violation {
                                            property: "C09".into(),
                                            invariant: "clipped_within_allowed_multiplicity".into(),
                                            class: "unclassified".into(),
                                            detail: format!(
                                                "no privacy unit has more rows than the multiplicity the bound allows and the data are inside the declared ranges, yet the rewritten query scales a unit's {} by {} (clip constant {}): the answer deviates for a reason that is neither noise nor permitted clipping",
                                                name, v, c
                                            ),
                                            witness: json!({"column": name, "scale_factor": v, "clip": c}),
                                        }]),
                                        Some(shape_of(sc, "clipped")),
                                    );
                                }
                                ex.stats.probe("clipping_active");
                                return (Verdict::Skip("clipping_active".into()), None);
                            }
                        }
                    }
                }
            }
            Err(e) => return (Verdict::Skip(format!("engine_gap:{}", short(&e))), None),
        }
    }

    let dp_sql = pipeline::render(&compiled.dp);
    let (dp, _) = match ex.query(&mut eng, "dp", &dp_sql, &plan) {
        Ok(x) => x,
        Err(e) => return (Verdict::Skip(format!("engine_gap_dp:{}", short(&e))), None),
    };
    let (orig_s, _) = match ex.query(&mut eng, "orig_sample", &q.sql_variant(false), &plan) {
        Ok(x) => x,
        Err(e) => return (Verdict::Skip(format!("engine_gap_orig:{}", short(&e))), None),
    };
    let (orig_p, _) = match ex.query(&mut eng, "orig_pop", &q.sql_variant(true), &plan) {
        Ok(x) => x,
        Err(e) => return (Verdict::Skip(format!("engine_gap_orig:{}", short(&e))), None),
    };

    // known-finding predicates (narrow, see known_findings.txt)
    let row_privacy = sc.pu.entries.iter().any(|e| e.field == ROW_PRIVACY);
    let protected_in_from = q.from.iter().filter(|f| sc.is_protected(&f.table)).count();
    let rowpriv_join = row_privacy && protected_in_from >= 2;
    // an outer join whose result has more rows than the larger of its two declared input sizes:
    // Join::size bounds every join on a unique key by max(l, r), forgetting the preserved rows
    // without partner, and the noisy sums are clamped to that size
    let outer_join_oversize = {
        let has_outer = q.from.iter().any(|f| f.kind == "LEFT JOIN" || f.kind == "FULL JOIN");
        let s_max = q.from.iter().filter_map(|f| sc.tables.iter().find(|t| t.name == f.table)).map(|t| t.size).max().unwrap_or(0);
        let n_join = if has_outer {
            ex.query(&mut eng, "join_rows", &format!("SELECT count(*) AS n FROM {}", q.from_clause_flat()), &plan)
                .ok()
                .and_then(|(rs, _)| rs.rows.first().and_then(|r| num(&r[0])))
                .unwrap_or(0.0)
        } else {
            0.0
        };
        has_outer && n_join > s_max as f64
    };

    let mut key_idx_o: Vec<usize> = q.keys.iter().filter_map(|k| orig_s.col(&k.alias)).collect();
    let mut key_idx_d: Vec<usize> = q.keys.iter().filter_map(|k| dp.col(&k.alias)).collect();
    let mut violations = vec![];
    // expected reading of an empty group (through the outer projection if any)
    let zero_row: Option<Vec<Cell>> = match &q.outer {
        None => None,
        Some(o) => {
            let inner: Vec<String> = q
                .keys
                .iter()
                .map(|k| format!("NULL AS {}", k.alias))
                .chain(q.aggs.iter().map(|a| format!("0 AS {}", a.alias)))
                .collect();
            let items: Vec<String> = o.iter().map(|(e, a)| format!("{} AS {}", e, a)).collect();
            let sql = format!("SELECT {} FROM (SELECT {}) AS sub", items.join(", "), inner.join(", "));
            ex.query(&mut eng, "zero_row", &sql, &plan).ok().and_then(|(rs, _)| rs.rows.first().cloned().map(|r| {
                // reorder to dp's columns
                dp.columns.iter().map(|c| rs.col(c).map(|i| r[i].clone()).unwrap_or(Cell::Null)).collect()
            }))
        }
    };

    // output keys that are not unique (a SELECT alias shadowing the grouping column): rows are
    // matched as a multiset - within one key value the rows of each side are ranked by their
    // aggregate values and the rank joins the key; surplus DP rows that read zero (declared public
    // values without data, mapped onto a value that has data) are set aside first
    let (mut orig_s, mut orig_p, mut dp) = (orig_s, orig_p, dp);
    if q.keys.iter().any(|k| k.group_expr.is_some()) && key_idx_d.len() == q.keys.len() && q.aggs.iter().all(|a| dp.col(&a.alias).is_some()) {
        ex.stats.probe("non_unique_output_keys");
        let dp_cols: Vec<String> = dp.columns.clone();
        let rank = |rs: &mut ResultSet, kidx: &[usize], counts: Option<&std::collections::BTreeMap<Vec<String>, usize>>| -> std::collections::BTreeMap<Vec<String>, usize> {
            // (aggregates under an open finding about their argument - reciprocal logarithms, powers
            // of negative bases, ratios - deviate by themselves: they do not take part in the
            // ranking unless nothing else is left to rank by)
            let deviates = |a: &simcommon::query::AggSpec| a.arg.starts_with("log2(") || a.arg.starts_with("log10(") || a.arg.starts_with("pow(") || a.arg.starts_with("power(") || a.arg.contains(" / ");
            let rank_aggs: Vec<&simcommon::query::AggSpec> = if q.aggs.iter().any(|a| !deviates(a)) { q.aggs.iter().filter(|a| !deviates(a)).collect() } else { q.aggs.iter().collect() };
            let aidx: Vec<usize> = rank_aggs.iter().filter_map(|a| rs.col(&a.alias)).collect();
            // (an empty group reads zero in EVERY aggregate, the deviating ones included)
            let aidx_all: Vec<usize> = q.aggs.iter().filter_map(|a| rs.col(&a.alias)).collect();
            // a NULL aggregate (no non-NULL value in the group) ranks where the DP side's reading of
            // it ranks: at what an empty group reads
            let zeros: Vec<f64> = rank_aggs.iter().filter(|a| rs.col(&a.alias).is_some()).map(|a| dp_cols.iter().position(|c| c == &a.alias).map_or(0.0, |i| zero_of(&zero_row, i))).collect();
            // (values rounded to 9 significant digits: the two sides add floats in another order,
            // equal aggregates of two groups must tie, not be ordered by their last bits)
            let sig = |v: f64| -> f64 {
                if v == 0.0 || !v.is_finite() {
                    return v;
                }
                let m = 10f64.powi(8 - v.abs().log10().floor() as i32);
                (v * m).round() / m
            };
            let vals = |r: &Vec<Cell>| -> Vec<f64> { aidx.iter().enumerate().map(|(j, i)| sig(num(&r[*i]).unwrap_or(zeros[j]))).collect() };
            let mut groups: std::collections::BTreeMap<Vec<String>, Vec<Vec<Cell>>> = Default::default();
            for r in rs.rows.drain(..) {
                groups.entry(kidx.iter().map(|i| r[*i].key()).collect()).or_default().push(r);
            }
            let mut n = std::collections::BTreeMap::new();
            for (k, mut rows) in groups {
                if let Some(c) = counts {
                    let want = *c.get(&k).unwrap_or(&0);
                    if want > 0 {
                        while rows.len() > want {
                            // a row that reads what an empty group reads (through the outer projection)
                            let reads_zero = |r: &Vec<Cell>| aidx_all.iter().all(|i| match num(&r[*i]) {
                                None => true,
                                Some(v) => close(v, zero_of(&zero_row, *i), 0.0, 1e-9),
                            });
                            match rows.iter().position(|r| reads_zero(r)) {
                                Some(i) => {
                                    rows.remove(i);
                                }
                                None => break,
                            }
                        }
                    }
                }
                rows.sort_by(|a, b| vals(a).partial_cmp(&vals(b)).unwrap_or(std::cmp::Ordering::Equal));
                n.insert(k, rows.len());
                for (i, mut r) in rows.into_iter().enumerate() {
                    r.push(Cell::Int(i as i64));
                    rs.rows.push(r);
                }
            }
            rs.columns.push("__rank".into());
            n
        };
        let counts = rank(&mut orig_s, &key_idx_o, None);
        rank(&mut orig_p, &key_idx_o, None);
        rank(&mut dp, &key_idx_d, Some(&counts));
        key_idx_o.push(orig_s.columns.len() - 1);
        key_idx_d.push(dp.columns.len() - 1);
    }
    if key_idx_d.len() < q.keys.len() || q.aggs.iter().any(|a| dp.col(&a.alias).is_none()) {
        violations.push(Violation {
            property: "C09".into(),
            invariant: "schema".into(),
            class: "unclassified".into(),
            detail: format!("DP result columns {:?} lack a key/aggregate alias of the query", dp.columns),
            witness: json!({"dp_columns": dp.columns}),
        });
        return (Verdict::Violations(violations), None);
    }
    let go = by_key(&orig_s, &key_idx_o);
    let gp = by_key(&orig_p, &key_idx_o);
    let gd = by_key(&dp, &key_idx_d);

    // 1. every group of the original appears
    for (k, _) in &go {
        if !gd.contains_key(k) {
            violations.push(Violation {
                property: "C09".into(),
                invariant: "groups".into(),
                class: "unclassified".into(),
                detail: format!("group {:?} of the original query is missing from the DP result", k),
                witness: json!({"group": k, "orig_groups": go.len(), "dp_groups": gd.len()}),
            });
            break;
        }
    }
    // 2. extra groups only for declared public key values, reading zero
    for (k, row) in &gd {
        if go.contains_key(k) {
            continue;
        }
        let mut declared = true;
        for (j, ks) in q.keys.iter().enumerate() {
            let set = ks.public_set.as_ref().unwrap();
            if !set.iter().any(|c| c.key() == k[j]) {
                declared = false;
            }
        }
        let mut zero = true;
        for a in &q.aggs {
            let di = dp.col(&a.alias).unwrap();
            let v = num(&row[di]);
            let expect = zero_row.as_ref().and_then(|z| num(&z[di])).unwrap_or(0.0);
            if let Some(v) = v {
                if !close(v, expect, 0.0, 1e-9) {
                    zero = false;
                }
            }
        }
        if q.having.is_some() {
            // an empty group cannot pass `count(*) > n` with n >= 0
            declared = false;
        }
        if !declared || !zero {
            violations.push(Violation {
                property: "C09".into(),
                invariant: "extra_group".into(),
                class: if rowpriv_join { "rowpriv_join".into() } else { "unclassified".into() },
                detail: format!("DP result has group {:?} absent from the original (declared public value: {}, reads zero: {})", k, declared, zero),
                witness: json!({"group": k, "row": row}),
            });
            break;
        }
    }
    // 3. values
    'groups: for (k, orow) in &go {
        let drow = match gd.get(k) {
            Some(r) => r,
            None => continue,
        };
        let prow = gp.get(k);
        for a in &q.aggs {
            let oi = orig_s.col(&a.alias).unwrap();
            let di = dp.col(&a.alias).unwrap();
            let o = num(&orow[oi]);
            let p = prow.and_then(|r| num(&r[oi]));
            let d = num(&drow[di]);
            let ok = match a.f {
                AggFn::CountStar | AggFn::Count => match (o, d) {
                    (Some(o), Some(d)) => o == d,
                    _ => false,
                },
                AggFn::Sum => match (o, d) {
                    (None, Some(d)) => close(d, zero_of(&zero_row, di), 0.0, 1e-9),
                    (Some(o), Some(d)) => close(o, d, 1e-9, 1e-10 * a.scale * 1000.0),
                    _ => false,
                },
                AggFn::Avg => match (o, d) {
                    (None, Some(d)) => close(d, zero_of(&zero_row, di), 0.0, 1e-9),
                    (Some(o), Some(d)) => close(o, d, 1e-9, 1e-12 * a.scale),
                    _ => false,
                },
                AggFn::Var | AggFn::Std => {
                    let tol_abs = if a.f == AggFn::Var { 1e-9 * a.scale * a.scale } else { 1e-7 };
                    match d {
                        None => false,
                        Some(d) => {
                            let z = zero_of(&zero_row, di);
                            let m_s = match o { Some(o) => close(o, d, 1e-7, tol_abs), None => false };
                            let m_p = match p { Some(p) => close(p, d, 1e-7, tol_abs) || (a.f == AggFn::Std && close(p * p, d * d, 1e-7, 1e-9 * a.scale * a.scale)), None => false };
                            let both_null = o.is_none() && p.is_none() && close(d, z, 0.0, 1e-9);
                            m_s || m_p || both_null
                        }
                    }
                }
            };
            if !ok {
                // narrow known-finding classes
                let mut class = "unclassified".to_string();
                if rowpriv_join {
                    class = "rowpriv_join".into();
                } else if outer_join_oversize && matches!(a.f, AggFn::CountStar | AggFn::Count | AggFn::Sum | AggFn::Avg | AggFn::Var | AggFn::Std) && d.zip(o).map_or(true, |(d, o)| d.abs() <= o.abs() + 1e-9 || a.f == AggFn::Avg || a.f == AggFn::Var || a.f == AggFn::Std) {
                    // known finding: the clamp of the noisy sums at the under-estimated join size
                    class = "outer_join_size".into();
                } else if a.arg.contains(" / 2.0") && !a.arg.contains("cast(") {
                    // known finding: the float literal 2.0 is rendered `2`, integer / 2 divides integers
                    class = "integer_valued_float_literal".into();
                } else if (a.arg.starts_with("log2(") || a.arg.starts_with("log10(")) && a.arg.ends_with(')') {
                    // known finding: the parser reads log2(x) / log10(x) as log(2) / log(x) and
                    // log(10) / log(x). Excused only if the DP value is what the original query
                    // gives with exactly that reading of this one argument
                    let (base, inner) = if let Some(r) = a.arg.strip_prefix("log2(") { ("2.0", r) } else { ("10.0", a.arg.strip_prefix("log10(").unwrap()) };
                    let inner = &inner[..inner.len() - 1];
                    let mut q2 = q.clone();
                    for a2 in q2.aggs.iter_mut() {
                        if a2.alias == a.alias {
                            // the guarded division of the compiler reads 0 where the denominator is NULL
                            a2.arg = format!("CASE WHEN log({i}) IS NULL THEN 0.0 ELSE log({b}) / log({i}) END", b = base, i = inner);
                        }
                    }
                    if let Ok((rs, _)) = ex.query(&mut eng, "log_swap_probe", &q2.sql_variant(false), &plan) {
                        let kidx: Vec<usize> = q.keys.iter().filter_map(|kk| rs.col(&kk.alias)).collect();
                        if let (Some(ci), Some(d)) = (rs.col(&a.alias), d) {
                            let prefix = &k[..q.keys.len().min(k.len())];
                            if rs.rows.iter().any(|r| {
                                let rk: Vec<String> = kidx.iter().map(|&i| r[i].key()).collect();
                                rk.as_slice() == prefix && num(&r[ci]).map_or(false, |v| close(v, d, 1e-9, 1e-9))
                            }) {
                                class = "log_base_swapped".into();
                            }
                        }
                    }
                } else if (a.arg.starts_with("power(") || a.arg.starts_with("pow(")) && d.zip(o).map_or(false, |(d, o)| o < d && close(d, zero_of(&zero_row, di), 0.0, 1e-9)) {
                    // known finding: pow is typed on non-negative bases only; a negative base falls
                    // back to the co-domain [0, max] and the final clamp cuts a negative sum to 0 (read through the outer projection, if any)
                    class = "pow_negative_base".into();
                } else if a.f == AggFn::Avg && !a.distinct && a.arg.contains(" / ") && !a.arg.contains('(') {
                    // known finding: the guarded division reads 0 (not NULL) where the denominator
                    // is NULL. Excused only if the DP value is the original query with that reading
                    let den = a.arg.split(" / ").nth(1).unwrap_or("").to_string();
                    let mut q2 = q.clone();
                    for a2 in q2.aggs.iter_mut() {
                        if a2.alias == a.alias {
                            a2.arg = format!("CASE WHEN {} IS NULL THEN 0.0 ELSE {} END", den, a.arg);
                        }
                    }
                    if let Ok((rs, _)) = ex.query(&mut eng, "null_denominator_probe", &q2.sql_variant(false), &plan) {
                        let kidx: Vec<usize> = q.keys.iter().filter_map(|kk| rs.col(&kk.alias)).collect();
                        if let (Some(ci), Some(d)) = (rs.col(&a.alias), d) {
                            let prefix = &k[..q.keys.len().min(k.len())];
                            if rs.rows.iter().any(|r| {
                                let rk: Vec<String> = kidx.iter().map(|&i| r[i].key()).collect();
                                rk.as_slice() == prefix && num(&r[ci]).map_or(false, |v| close(v, d, 1e-9, 1e-9))
                            }) {
                                class = "division_null_denominator".into();
                            }
                        }
                    }
                } else if a.distinct {
                    // excused only if the group really holds duplicate values of the argument
                    let dup_sql = format!(
                        "{}SELECT {} count({}) AS c, count(DISTINCT {}) AS d FROM {}{}{}",
                        q.cte.as_ref().map(|c| format!("WITH s AS ({}) ", c)).unwrap_or_default(),
                        q.keys.iter().map(|k| format!("{} AS {},", k.expr, k.alias)).collect::<Vec<_>>().join(" "),
                        a.arg, a.arg, q.from_clause(), q.where_clause(),
                        if q.keys.is_empty() { String::new() } else { format!(" GROUP BY {}", q.keys.iter().map(|k| k.expr.clone()).collect::<Vec<_>>().join(", ")) }
                    );
                    if let Ok((rs, _)) = ex.query(&mut eng, "dup_probe", &dup_sql, &plan) {
                        let kidx: Vec<usize> = q.keys.iter().filter_map(|kk| rs.col(&kk.alias)).collect();
                        let m = by_key(&rs, &kidx);
                        if let Some(r) = m.get(k) {
                            let c = num(&r[rs.col("c").unwrap()]).unwrap_or(0.0);
                            let dd = num(&r[rs.col("d").unwrap()]).unwrap_or(0.0);
                            if c > dd {
                                class = "distinct_dup".into();
                            }
                        }
                    }
                }
                violations.push(Violation {
                    property: "C09".into(),
                    invariant: format!("value:{:?}{}", a.f, if a.distinct { ":distinct" } else { "" }),
                    class,
                    detail: format!(
                        "group {:?} column {} ({}): DP value {:?} vs original {:?} (population variant {:?}) with noise and clipping inactive",
                        k, a.alias, a.sql(false), d, o, p
                    ),
                    witness: json!({"group": k, "column": a.alias, "aggregate": a.sql(false), "dp": d, "orig": o, "orig_pop": p}),
                });
                if violations.len() >= 4 {
                    break 'groups;
                }
            }
        }
    }
    let shape = format!(
        "{}|{}",
        sc.tags.iter().filter(|t| t.starts_with("pu:") || t.starts_with("from:") || t.starts_with("keys:") || t.starts_with("aggs:") || *t == "having" || *t == "outer" || *t == "where" || t.starts_with("hist:")).cloned().collect::<Vec<_>>().join(";"),
        if go.is_empty() { "empty" } else if go.len() == 1 { "one_group" } else { "groups" }
    );
    if violations.is_empty() {
        // probes, never gating (DESIGN 2.4, S5): engine row order of unordered relations, and the
        // engine's native CTE policy (no MATERIALIZED hint) under the neutral schedule
        if eng.pragma("PRAGMA reverse_unordered_selects = ON").is_ok() {
            if let Ok((rev, _)) = ex.query(&mut eng, "dp_reversed_row_order", &dp_sql, &plan) {
                ex.stats.probe("row_order_probe_runs");
                if !same_rows_tol(&rev, &dp, 1e-9) {
                    ex.stats.probe("row_order_changes_neutral_result");
                }
            }
            let _ = eng.pragma("PRAGMA reverse_unordered_selects = OFF");
        }
        if let Ok((nat, log)) = ex.query(&mut eng, "dp_native_cte_policy", &pipeline::render_native(&compiled.dp), &plan) {
            ex.stats.probe("native_cte_probe_runs");
            if !same_rows_tol(&nat, &dp, 1e-9) {
                ex.stats.probe("native_cte_policy_changes_neutral_result");
            }
            let draws: u64 = log.values().map(|l| l.calls).sum();
            ex.stats.probe_n("native_cte_policy_draws", draws);
        }
        (Verdict::Ok, Some(shape))
    } else {
        (Verdict::Violations(violations), Some(shape))
    }
}

fn zero_of(z: &Option<Vec<Cell>>, i: usize) -> f64 {
    z.as_ref().and_then(|r| num(&r[i])).unwrap_or(0.0)
}

