//! C01 - true sensitivity never exceeds the calibrated clip bound (DESIGN 3, C01).
//! Coupled executions of the pre-noise relation on D and on D minus one unit.
use crate::budget;
use simcommon::engine::{DrawMode, DrawPlan, ResultSet};
use crate::ir::{self, NoiseMap};
use crate::oracle::*;
use crate::owners;
use crate::pipeline;
use simcommon::scenario::{Scenario, TableSpec};
use qrlew::differential_privacy::DpEvent;
use qrlew::relation::{Relation, Variant as _};
use serde_json::json;
use std::collections::{BTreeMap, BTreeSet};

pub fn count_reduces(r: &Relation) -> usize {
    ir::nodes(r).iter().filter(|n| matches!(n, Relation::Reduce(_))).count()
}

/// Group rows of the pre-noise relation: key = the non-noised columns.
fn grouped(rs: &ResultSet, value_cols: &[String]) -> BTreeMap<Vec<String>, Vec<f64>> {
    let vidx: Vec<usize> = value_cols.iter().filter_map(|c| rs.col(c)).collect();
    let kidx: Vec<usize> = (0..rs.columns.len()).filter(|i| !vidx.contains(i)).collect();
    let mut m = BTreeMap::new();
    for r in &rs.rows {
        let k: Vec<String> = kidx.iter().map(|i| r[*i].key()).collect();
        let v: Vec<f64> = vidx.iter().map(|i| num(&r[*i]).unwrap_or(0.0)).collect();
        m.insert(k, v);
    }
    m
}

pub struct Measured {
    /// per unit: per noise map: per column: (delta, groups compared, groups excluded)
    pub deltas: Vec<(String, Vec<Vec<f64>>)>,
    pub excluded_groups: u64,
}

pub fn cap_mode(sc: &Scenario) -> DrawMode {
    match sc.engine_seed % 3 {
        0 => DrawMode::Inc,
        1 => DrawMode::Dec,
        _ => DrawMode::Const(0.5),
    }
}

pub fn pick_units(sc: &Scenario, own: &owners::Owners, max: usize) -> Vec<String> {
    let base = sc.base.as_ref().map(|b| b.1.clone()).unwrap_or_default();
    let mut by_w = owners::units_by_weight(own, &base);
    if by_w.is_empty() {
        // the base table has no owned rows: take units of any protected table
        for t in own.keys() {
            by_w.extend(owners::units_by_weight(own, t));
        }
    }
    let mut picked: Vec<String> = vec![];
    for (u, _) in by_w.iter().take(2) {
        if !picked.contains(u) {
            picked.push(u.clone());
        }
    }
    let all: Vec<String> = owners::all_units(own).into_iter().collect();
    let mut r = simcommon::Rng::stream(sc.engine_seed, sc.run, "units");
    let mut tries = 0;
    while picked.len() < max.min(all.len()) && tries < 20 {
        tries += 1;
        let u = all[r.usize(all.len())].clone();
        if !picked.contains(&u) {
            picked.push(u);
        }
    }
    picked
}

/// Executes the pre-noise relations on D and on D minus each picked unit.
/// `fixed_keys` = the key set of the vector is the same in D and D' (no private key column).
pub fn measure(
    sc: &Scenario,
    ex: &mut Exec,
    maps: &[&NoiseMap],
    plan: &DrawPlan,
    fixed_keys: &[bool],
    units: &[String],
    own: &owners::Owners,
) -> Result<Measured, String> {
    let tabs: Vec<&TableSpec> = sc.tables.iter().chain(sc.synthetic.iter()).collect();
    let mut eng = ex.engine(&tabs)?;
    let sqls: Vec<String> = maps.iter().map(|m| pipeline::render(&m.input)).collect();
    let mut base: Vec<BTreeMap<Vec<String>, Vec<f64>>> = vec![];
    for (i, m) in maps.iter().enumerate() {
        let cols: Vec<String> = m.cols.iter().map(|c| c.input_col.clone().unwrap_or(c.name.clone())).collect();
        let (rs, _) = ex.query(&mut eng, "pre_noise_D", &sqls[i], plan)?;
        base.push(grouped(&rs, &cols));
    }
    let mut deltas = vec![];
    let mut excluded = 0u64;
    for u in units {
        let t2 = owners::without_unit(sc, own, u);
        let tabs2: Vec<&TableSpec> = t2.iter().chain(sc.synthetic.iter()).collect();
        let mut eng2 = ex.engine(&tabs2)?;
        let mut per_map = vec![];
        for (i, m) in maps.iter().enumerate() {
            let cols: Vec<String> = m.cols.iter().map(|c| c.input_col.clone().unwrap_or(c.name.clone())).collect();
            let (rs, _) = ex.query(&mut eng2, "pre_noise_D_minus_u", &sqls[i], plan)?;
            let g2 = grouped(&rs, &cols);
            let mut sq = vec![0.0f64; cols.len()];
            let keys: BTreeSet<&Vec<String>> = base[i].keys().chain(g2.keys()).collect();
            if !fixed_keys[i] && keys.iter().any(|k| base[i].get(*k).is_none() || g2.get(*k).is_none()) {
                // Removing this unit changed the *released key set* S. The sensitivity of the
                // aggregate mechanism is defined for a fixed S (it is composed after the key
                // release): every unit's clipping norm is taken over the groups in S, so with
                // S(D) != S(D') even other units' clipped contributions differ - which is the
                // key-release mechanism's business, not this one's. Such a unit is not measured
                // for this map (counted); seen as a false alarm of an earlier version that only
                // dropped the non-common groups (seed 104, run 261).
                excluded += 1;
                per_map.push(vec![f64::NAN; cols.len()]);
                continue;
            }
            for k in keys {
                let a = base[i].get(k);
                let b = g2.get(k);
                for j in 0..cols.len() {
                    let x = a.map(|v| v[j]).unwrap_or(0.0);
                    let y = b.map(|v| v[j]).unwrap_or(0.0);
                    sq[j] += (x - y) * (x - y);
                }
            }
            per_map.push(sq.iter().map(|s| s.sqrt()).collect::<Vec<f64>>());
        }
        deltas.push((u.clone(), per_map));
    }
    Ok(Measured { deltas, excluded_groups: excluded })
}

pub fn threshold_entries(event: &DpEvent) -> Vec<(f64, f64)> {
    let mut leaves = vec![];
    pipeline::event_leaves(event, &mut leaves);
    leaves
        .iter()
        .filter_map(|e| match e {
            DpEvent::EpsilonDelta { epsilon, delta } => Some((*epsilon, *delta)),
            _ => None,
        })
        .collect()
}

pub fn check(sc: &Scenario, ex: &mut Exec) -> (Verdict, Option<String>) {
    let compiled = match compile_or_skip(sc, ex) {
        Ok(c) => c,
        Err(v) => return (v, None),
    };
    let scan = ir::scan(&compiled.dp);
    if !scan.unrecognised.is_empty() {
        return (Verdict::Skip("unrecognised_noise_pattern".into()), None);
    }
    let thr_names: Vec<String> = scan.thresholds.iter().map(|t| t.noise.map.name().to_string()).collect();
    let all_agg: Vec<&NoiseMap> = scan.noise_maps.iter().filter(|m| !thr_names.contains(&m.map.name().to_string())).collect();
    // nested DP aggregations: the outer mechanism's sensitivity is defined for a fixed (released)
    // result of the inner one, which coupled executions on D and D' cannot hold fixed - only the
    // innermost aggregate noise maps are measured (the others are counted)
    let agg_maps: Vec<&NoiseMap> = all_agg
        .iter()
        .cloned()
        .filter(|m| !all_agg.iter().any(|o| o.map.name() != m.map.name() && ir::contains_node(&m.input, &o.map)))
        .collect();
    if agg_maps.len() < all_agg.len() {
        ex.stats.probe_n("outer_noise_maps_of_nested_aggregations_not_measured", (all_agg.len() - agg_maps.len()) as u64);
    }
    let thr_maps: Vec<&NoiseMap> = scan.noise_maps.iter().filter(|m| thr_names.contains(&m.map.name().to_string())).collect();
    if agg_maps.is_empty() && thr_maps.is_empty() {
        return (Verdict::Skip("no_noise_in_rewriting".into()), None);
    }
    let own = owners::owners(sc);
    let units = pick_units(sc, &own, if sc.depth > 0 { 12 } else { 4 });
    if units.is_empty() {
        return (Verdict::Skip("no_units".into()), None);
    }
    let plan = DrawPlan::neutral(sc.engine_seed).release_all().with_cap(cap_mode(sc)).with_row_id(DrawMode::Inc);
    let has_threshold = !scan.thresholds.is_empty();
    let mut maps: Vec<&NoiseMap> = agg_maps.clone();
    let mut fixed: Vec<bool> = agg_maps.iter().map(|_| !has_threshold).collect();
    for t in &thr_maps {
        maps.push(t);
        fixed.push(true); // the count vector before release: every candidate key, missing = 0
    }
    let measured = match measure(sc, ex, &maps, &plan, &fixed, &units, &own) {
        Ok(m) => m,
        Err(e) => return (Verdict::Skip(format!("engine_gap:{}", short(&e))), None),
    };
    ex.stats.probe_n("unit_removals_that_changed_the_released_key_set", measured.excluded_groups);

    let mut violations = vec![];
    let n_red = count_reduces(&compiled.original).max(1) as f64;
    let thr = threshold_entries(&compiled.event);
    let eps_tau: f64 = thr.iter().map(|t| t.0).sum();
    let delta_tau: f64 = thr.iter().map(|t| t.1).sum();
    let eps_avail = n_red * sc.params.epsilon - eps_tau;
    let delta_avail = n_red * sc.params.delta - delta_tau;
    let n_agg = agg_maps.len();
    let mut saturated = false;
    let mut any_positive = false;
    for (u, per_map) in &measured.deltas {
        // (a) direct: Delta_j <= C_j for the clip constant found in the IR
        let mut a: Vec<f64> = vec![];
        for (mi, m) in maps.iter().enumerate() {
            let is_thr = mi >= n_agg;
            for (j, c) in m.cols.iter().enumerate() {
                let d = per_map[mi][j];
                if d.is_nan() {
                    continue; // released key set changed with this unit: not measurable (see measure)
                }
                if d > 0.0 {
                    any_positive = true;
                }
                if is_thr {
                    let cmax = (sc.params.cu as f64).sqrt();
                    if d > cmax * (1.0 + 1e-9) {
                        violations.push(Violation {
                            property: "C01".into(),
                            invariant: "threshold_count_sensitivity".into(),
                            class: "unclassified".into(),
                            detail: format!("removing unit {} changes the per-key distinct-unit counts by {} in L2 norm; the threshold noise is scaled for sqrt(Cu) = {}", u, d, cmax),
                            witness: json!({"unit": u, "delta": d, "cu": sc.params.cu, "sigma": c.sigma}),
                        });
                    }
                    // budget of the thresholding noise alone
                    if let Some((et, dt)) = thr.first() {
                        if c.sigma > 0.0 && d > 0.0 {
                            let need = budget::g(*dt) * d / c.sigma;
                            if need > et * (1.0 + 1e-9) {
                                violations.push(Violation {
                                    property: "C01".into(),
                                    invariant: "threshold_count_budget".into(),
                                    class: "unclassified".into(),
                                    detail: format!("unit {}: count change {} with sigma {} needs epsilon {} > recorded {}", u, d, c.sigma, need, et),
                                    witness: json!({"unit": u, "delta": d, "sigma": c.sigma, "need": need, "have": et}),
                                });
                            }
                        }
                    }
                    continue;
                }
                let input_col = c.input_col.clone().unwrap_or(c.name.clone());
                if let Some(clip) = ir::clip_of(&m.input, &input_col) {
                    if d >= clip * (1.0 - 1e-6) && clip > 0.0 {
                        saturated = true;
                    }
                    if d > clip * (1.0 + 1e-9) + 1e-12 {
                        violations.push(Violation {
                            property: "C01".into(),
                            invariant: "delta_le_clip".into(),
                            class: "unclassified".into(),
                            detail: format!("removing unit {} changes pre-noise column {} by {} in L2 norm over the groups; the clip constant in the rewritten query is {} (sigma {})", u, c.name, d, clip, c.sigma),
                            witness: json!({"unit": u, "column": c.name, "delta": d, "clip": clip, "sigma": c.sigma}),
                        });
                    }
                } else {
                    ex.stats.probe("clip_constant_not_traced");
                }
                if c.sigma == 0.0 {
                    if d > 0.0 {
                        violations.push(Violation {
                            property: "C01".into(),
                            invariant: "sigma_zero_delta_positive".into(),
                            class: "unclassified".into(),
                            detail: format!("column {} gets no noise (sigma = 0) but removing unit {} changes it by {}", c.name, u, d),
                            witness: json!({"unit": u, "column": c.name, "delta": d}),
                        });
                    }
                } else {
                    a.push(d / c.sigma);
                }
            }
        }
        // (b) budget: the noise actually present must pay for the measured sensitivities
        let need = budget::min_epsilon(&a, delta_avail);
        if need > eps_avail * (1.0 + 1e-9) {
            violations.push(Violation {
                property: "C01".into(),
                invariant: "budget".into(),
                class: "unclassified".into(),
                detail: format!(
                    "unit {}: the measured sensitivities need epsilon {} at the best delta split, but only {} (= {} x {} - {} spent on key release) is available; delta available {}",
                    u, need, eps_avail, n_red, sc.params.epsilon, eps_tau, delta_avail
                ),
                witness: json!({"unit": u, "a": a, "need": need, "eps_avail": eps_avail, "delta_avail": delta_avail}),
            });
        }
        if violations.len() >= 4 {
            break;
        }
    }
    if saturated {
        ex.stats.probe("clip_saturated");
    }
    let shape = coarse_shape(
        sc,
        &format!(
            "{}|{}|{}",
            if saturated { "saturated" } else if any_positive { "moved" } else { "unmoved" },
            if has_threshold { "thresholded" } else { "fixed_keys" },
            sc.tags.iter().filter(|t| t.starts_with("fault:heavy") || t.starts_with("fault:spread")).cloned().collect::<Vec<_>>().join(",")
        ),
    );
    if !any_positive && violations.is_empty() {
        return (Verdict::Skip("no_unit_moved_a_noised_cell".into()), None);
    }
    if violations.is_empty() {
        (Verdict::Ok, Some(shape))
    } else {
        (Verdict::Violations(violations), Some(shape))
    }
}
