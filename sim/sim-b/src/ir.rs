//! Scan of the rewritten IR for the observation points the properties name (DESIGN 2.2):
//! noise maps (Box-Muller over `Function::Random`), their sigma literals, clamp ranges and
//! pre-noise input relations; the threshold filter and its tau. Node names are never used to
//! recognise anything (they are content hashes that change with the counter state).
use qrlew::{
    data_type::value::Value,
    expr::{function::Function as F, Expr},
    relation::{Map, Relation, Variant as _},
};

#[derive(Clone, Debug)]
pub struct NoisedCol {
    /// Output field name in the noise map.
    pub name: String,
    /// Column of the input relation the noise is added to.
    pub input_col: Option<String>,
    pub sigma: f64,
    pub u1_site: i64,
    pub u2_site: i64,
    pub clamp: Option<(f64, f64)>,
}

#[derive(Clone, Debug)]
pub struct NoiseMap {
    pub map: Relation,
    pub input: Relation,
    pub cols: Vec<NoisedCol>,
    /// Pass-through column names (not noised).
    pub plain: Vec<String>,
}

#[derive(Clone, Debug)]
pub struct Threshold {
    /// The filtering map (input: a noise map).
    pub map: Relation,
    pub noise: NoiseMap,
    pub column: String,
    pub tau: f64,
    /// ">" or ">=" as found.
    pub strict: bool,
}

#[derive(Clone, Debug, Default)]
pub struct Scan {
    pub noise_maps: Vec<NoiseMap>,
    pub thresholds: Vec<Threshold>,
    /// Random() occurrences outside the Box-Muller pattern: (map name, field or "_WHERE_", site).
    pub other_random: Vec<(String, String, i64)>,
    /// Random() in a Box-Muller-like position whose surrounding pattern was not recognised.
    pub unrecognised: Vec<String>,
    pub nodes: usize,
    pub tables: Vec<String>,
}

fn func(e: &Expr) -> Option<(F, Vec<Expr>)> {
    match e {
        Expr::Function(f) => Some((f.function(), f.arguments())),
        _ => None,
    }
}

fn float_value(e: &Expr) -> Option<f64> {
    match e {
        Expr::Value(Value::Float(f)) => Some(**f),
        Expr::Value(Value::Integer(i)) => Some(**i as f64),
        _ => None,
    }
}

fn random_site(e: &Expr) -> Option<i64> {
    match func(e) {
        Some((F::Random(n), _)) => Some(n as i64),
        _ => None,
    }
}

/// sqrt(-2 * ln(random(n1))) * cos(2 pi * random(n2))
fn gaussian(e: &Expr) -> Option<(i64, i64)> {
    let (f, args) = func(e)?;
    if f != F::Multiply || args.len() != 2 {
        return None;
    }
    let radius = |e: &Expr| -> Option<i64> {
        let (f, a) = func(e)?;
        if f != F::Sqrt {
            return None;
        }
        let (f, a) = func(&a[0])?;
        if f != F::Multiply {
            return None;
        }
        let (c, l) = if float_value(&a[0]).is_some() { (&a[0], &a[1]) } else { (&a[1], &a[0]) };
        if float_value(c)? != -2.0 {
            return None;
        }
        let (f, a) = func(l)?;
        if f != F::Ln {
            return None;
        }
        random_site(&a[0])
    };
    let angle = |e: &Expr| -> Option<i64> {
        let (f, a) = func(e)?;
        if f != F::Cos {
            return None;
        }
        let (f, a) = func(&a[0])?;
        if f != F::Multiply {
            return None;
        }
        let (c, r) = if float_value(&a[0]).is_some() { (&a[0], &a[1]) } else { (&a[1], &a[0]) };
        let c = float_value(c)?;
        if (c - 2.0 * std::f64::consts::PI).abs() > 1e-12 {
            return None;
        }
        random_site(r)
    };
    if let (Some(a), Some(b)) = (radius(&args[0]), angle(&args[1])) {
        return Some((a, b));
    }
    if let (Some(a), Some(b)) = (radius(&args[1]), angle(&args[0])) {
        return Some((a, b));
    }
    None
}

fn contains_random(e: &Expr) -> bool {
    match e {
        Expr::Function(f) => {
            matches!(f.function(), F::Random(_)) || f.arguments().iter().any(contains_random)
        }
        Expr::Aggregate(a) => contains_random(a.argument()),
        _ => false,
    }
}

/// Does the expression contain a piece of a Box-Muller transform (ln(random) or cos(.. random))?
fn contains_bm_fragment(e: &Expr) -> bool {
    match e {
        Expr::Function(f) => {
            let args = f.arguments();
            match f.function() {
                F::Ln | F::Cos | F::Sin | F::Log => args.iter().any(contains_random) || args.iter().any(contains_bm_fragment),
                _ => args.iter().any(contains_bm_fragment),
            }
        }
        Expr::Aggregate(a) => contains_bm_fragment(a.argument()),
        _ => false,
    }
}

fn collect_random(e: &Expr, out: &mut Vec<i64>) {
    match e {
        Expr::Function(f) => {
            if let F::Random(n) = f.function() {
                out.push(n as i64);
            }
            for a in f.arguments().iter() {
                collect_random(a, out);
            }
        }
        Expr::Aggregate(a) => collect_random(a.argument(), out),
        _ => {}
    }
}

/// x + sigma * gaussian, possibly inside least(max, greatest(min, .)); x = col or coalesce(col, 0).
fn noised(e: &Expr) -> Option<(Option<String>, f64, i64, i64, Option<(f64, f64)>)> {
    let (f, args) = func(e)?;
    match f {
        F::Least if args.len() == 2 => {
            let (hi, inner) =
                if float_value(&args[0]).is_some() { (&args[0], &args[1]) } else { (&args[1], &args[0]) };
            let hi = float_value(hi)?;
            let (f2, a2) = func(inner)?;
            if f2 != F::Greatest || a2.len() != 2 {
                return None;
            }
            let (lo, core) =
                if float_value(&a2[0]).is_some() { (&a2[0], &a2[1]) } else { (&a2[1], &a2[0]) };
            let lo = float_value(lo)?;
            let (c, s, u1, u2, _) = noised(core)?;
            Some((c, s, u1, u2, Some((lo, hi))))
        }
        // a default wrapped around the noisy term (coalesce(x + sigma * gaussian, 0)): the same
        // mechanism as far as its constants go; whether the noise still reaches every cell is for
        // the dynamic checks to say
        F::Coalesce if args.len() == 2 && float_value(&args[1]).is_some() => noised(&args[0]),
        F::Plus if args.len() == 2 => {
            let try_side = |x: &Expr, n: &Expr| -> Option<(Option<String>, f64, i64, i64)> {
                let (f, a) = func(n)?;
                if f != F::Multiply {
                    return None;
                }
                let (sv, g) = if float_value(&a[0]).is_some() { (&a[0], &a[1]) } else { (&a[1], &a[0]) };
                let sigma = float_value(sv)?;
                let (u1, u2) = gaussian(g)?;
                let col = match x {
                    Expr::Column(c) => c.last().ok().map(|s| s.to_string()),
                    other => match func(other) {
                        Some((F::Coalesce, a)) => match &a[0] {
                            Expr::Column(c) => c.last().ok().map(|s| s.to_string()),
                            _ => None,
                        },
                        _ => None,
                    },
                };
                Some((col, sigma, u1, u2))
            };
            let r = try_side(&args[0], &args[1]).or_else(|| try_side(&args[1], &args[0]))?;
            Some((r.0, r.1, r.2, r.3, None))
        }
        _ => None,
    }
}

fn walk<'a>(r: &'a Relation, seen: &mut Vec<&'a Relation>) {
    if seen.iter().any(|s| s.name() == r.name() && *s == r) {
        return;
    }
    seen.push(r);
    for i in r.inputs() {
        walk(i, seen);
    }
}

pub fn nodes(r: &Relation) -> Vec<&Relation> {
    let mut seen = vec![];
    walk(r, &mut seen);
    seen
}

fn noise_map_of(map: &Map) -> Option<(NoiseMap, Vec<String>)> {
    let mut cols = vec![];
    let mut plain = vec![];
    let mut unrec = vec![];
    for (field, expr) in map.field_exprs() {
        if let Some((input_col, sigma, u1, u2, clamp)) = noised(expr) {
            cols.push(NoisedCol {
                name: field.name().to_string(),
                input_col,
                sigma,
                u1_site: u1,
                u2_site: u2,
                clamp,
            });
        } else if contains_bm_fragment(expr) {
            unrec.push(format!("{}.{} = {}", map.name(), field.name(), expr));
        } else {
            plain.push(field.name().to_string());
        }
    }
    if cols.is_empty() {
        return if unrec.is_empty() { None } else { Some((NoiseMap { map: map.clone().into(), input: map.input().clone(), cols, plain }, unrec)) };
    }
    Some((
        NoiseMap { map: map.clone().into(), input: map.input().clone(), cols, plain },
        unrec,
    ))
}

/// (column, tau, strict) comparisons `col > literal` found in a conjunction.
fn comparisons(e: &Expr, out: &mut Vec<(String, f64, bool)>) {
    if let Some((f, a)) = func(e) {
        match f {
            F::And => {
                comparisons(&a[0], out);
                comparisons(&a[1], out);
            }
            F::Gt | F::GtEq => {
                if let (Expr::Column(c), Some(v)) = (&a[0], float_value(&a[1])) {
                    if let Ok(n) = c.last() {
                        out.push((n.to_string(), v, f == F::Gt));
                    }
                }
            }
            F::Lt | F::LtEq => {
                if let (Some(v), Expr::Column(c)) = (float_value(&a[0]), &a[1]) {
                    if let Ok(n) = c.last() {
                        out.push((n.to_string(), v, f == F::Lt));
                    }
                }
            }
            _ => {}
        }
    }
}

pub fn scan(root: &Relation) -> Scan {
    let mut s = Scan::default();
    let all = nodes(root);
    s.nodes = all.len();
    for r in &all {
        match r {
            Relation::Table(t) => s.tables.push(t.path().to_string()),
            Relation::Map(m) => {
                let mut is_noise = false;
                if let Some((nm, unrec)) = noise_map_of(m) {
                    s.unrecognised.extend(unrec);
                    if !nm.cols.is_empty() {
                        is_noise = true;
                        s.noise_maps.push(nm);
                    }
                }
                if !is_noise {
                    for (field, expr) in m.field_exprs() {
                        let mut v = vec![];
                        collect_random(expr, &mut v);
                        for n in v {
                            s.other_random.push((m.name().to_string(), field.name().to_string(), n));
                        }
                    }
                }
                if let Some(f) = m.filter() {
                    let mut v = vec![];
                    collect_random(f, &mut v);
                    for n in v {
                        s.other_random.push((m.name().to_string(), "_WHERE_".to_string(), n));
                    }
                    // threshold: a filter on a column that the input map noises
                    if let Relation::Map(inp) = m.input() {
                        if let Some((nm, _)) = noise_map_of(inp) {
                            let mut cmp = vec![];
                            comparisons(f, &mut cmp);
                            for (col, tau, strict) in cmp {
                                if nm.cols.iter().any(|c| c.name == col) {
                                    s.thresholds.push(Threshold {
                                        map: (*r).clone(),
                                        noise: nm.clone(),
                                        column: col,
                                        tau,
                                        strict,
                                    });
                                }
                            }
                        }
                    }
                }
                for o in m.order_by() {
                    let mut v = vec![];
                    collect_random(&o.expr, &mut v);
                    for n in v {
                        s.other_random.push((m.name().to_string(), "_ORDER_".to_string(), n));
                    }
                }
            }
            _ => {}
        }
    }
    s
}

/// Is `needle` (structurally) a node of `root`?
pub fn contains_node(root: &Relation, needle: &Relation) -> bool {
    nodes(root).iter().any(|n| n.name() == needle.name() && *n == needle)
}

/// A map computing clipping scale factors: projection items of the form
/// `1 / greatest(1, norm / C)` (or the constant 0 when C = 0).
#[derive(Clone, Debug)]
pub struct ScaleMap {
    pub map: Relation,
    /// (field name, C)
    pub factors: Vec<(String, f64)>,
}

/// `a / b`, either raw or in the guarded form `case(b >= eps or b <= -eps, a / b, 0)` that
/// `Expr::divide` builds.
fn as_divide(e: &Expr) -> Option<(Expr, Expr)> {
    let (f, a) = func(e)?;
    match f {
        F::Divide => Some((a[0].clone(), a[1].clone())),
        F::Case if a.len() == 3 => {
            let (f2, a2) = func(&a[1])?;
            if f2 == F::Divide && float_value(&a[2]) == Some(0.0) {
                Some((a2[0].clone(), a2[1].clone()))
            } else {
                None
            }
        }
        _ => None,
    }
}

fn scale_factor(e: &Expr) -> Option<f64> {
    let (n, d) = as_divide(e)?;
    if float_value(&n)? != 1.0 {
        return None;
    }
    let (f, a) = func(&d)?;
    if f != F::Greatest || a.len() != 2 {
        return None;
    }
    let (one, q) = if float_value(&a[0]).is_some() { (&a[0], &a[1]) } else { (&a[1], &a[0]) };
    if float_value(one)? != 1.0 {
        return None;
    }
    let (_, c) = as_divide(q)?;
    float_value(&c)
}

pub fn scale_maps(root: &Relation) -> Vec<ScaleMap> {
    let mut out = vec![];
    for r in nodes(root) {
        if let Relation::Map(m) = r {
            let mut factors = vec![];
            for (field, expr) in m.field_exprs() {
                if let Some(c) = scale_factor(expr) {
                    factors.push((field.name().to_string(), c));
                }
            }
            if !factors.is_empty() {
                out.push(ScaleMap { map: r.clone(), factors });
            }
        }
    }
    out
}

/// Trace a pre-noise column back to the clipping constant it was clipped with:
/// pre-noise relation = Reduce{ sum(a) as col }, its input Map{ a = x * sf }, that map's input
/// Join(left = rows, right = scale-factor map) where sf comes from a field whose expression is
/// `1 / greatest(1, norm / C)` (C), or the literal 0 (C = 0). `None` when the IR does not have
/// this shape (then the direct check is skipped, never failed).
pub fn clip_of(pre_noise: &Relation, col: &str) -> Option<f64> {
    let red = match pre_noise {
        Relation::Reduce(r) => r,
        _ => return None,
    };
    let (_, agg) = red.field_aggregates().into_iter().find(|(f, _)| f.name() == col)?;
    if *agg.aggregate() != qrlew::expr::aggregate::Aggregate::Sum {
        return None;
    }
    let mut name = agg.column().last().ok()?.to_string();
    // follow plain renames through maps until the product `x * scale_factor`
    let mut cur: &Relation = red.input();
    let mut product: Option<(Vec<String>, &Relation)> = None;
    for _ in 0..6 {
        let m = match cur {
            Relation::Map(m) => m,
            _ => return None,
        };
        let (_, e) = m.field_exprs().into_iter().find(|(f, _)| f.name() == name)?;
        match e {
            Expr::Column(c) => {
                name = c.last().ok()?.to_string();
                cur = m.input();
            }
            other => {
                let (f, args) = func(other)?;
                if f != F::Multiply {
                    return None;
                }
                let names: Vec<String> = args
                    .iter()
                    .filter_map(|x| match x {
                        Expr::Column(c) => c.last().ok().map(|s| s.to_string()),
                        _ => None,
                    })
                    .collect();
                if names.len() != 2 {
                    return None;
                }
                product = Some((names, m.input()));
                break;
            }
        }
    }
    let (names, below) = product?;
    let join = match below {
        Relation::Join(j) => j,
        _ => return None,
    };
    // which of the two multiplied columns comes from the right input of the join?
    let left_len = join.left().schema().len();
    for n in &names {
        if let Some(pos) = join.schema().iter().position(|f| f.name() == n) {
            if pos >= left_len {
                let right_field = join.right().schema().iter().nth(pos - left_len)?;
                if let Relation::Map(sm) = join.right() {
                    let (_, se) = sm.field_exprs().into_iter().find(|(f, _)| f.name() == right_field.name())?;
                    if let Some(c) = scale_factor(se) {
                        return Some(c);
                    }
                    if float_value(se) == Some(0.0) {
                        return Some(0.0);
                    }
                }
            }
        }
    }
    None
}

// ---------------------------------------------------------------------------------------------
// Static column lineage of a rewritten relation (C02's "column lineage in the IR"): which output
// columns carry a value dependency on a column of a protected table that crosses neither a
// Gaussian-noise expression nor the key-release (threshold) map.

fn columns_of(e: &Expr, out: &mut Vec<String>) {
    match e {
        Expr::Column(c) => {
            if let Ok(n) = c.last() {
                out.push(n.to_string());
            }
        }
        Expr::Function(f) => {
            for a in f.arguments().iter() {
                columns_of(a, out);
            }
        }
        Expr::Aggregate(a) => columns_of(a.argument(), out),
        Expr::Struct(_) | Expr::Value(_) => {}
    }
}

fn is_threshold_map(m: &Map) -> bool {
    if let (Some(f), Relation::Map(inp)) = (m.filter(), m.input()) {
        if let Some((nm, _)) = noise_map_of(inp) {
            let mut cmp = vec![];
            comparisons(f, &mut cmp);
            return cmp.iter().any(|(col, _, _)| nm.cols.iter().any(|c| &c.name == col));
        }
    }
    false
}

/// Per output field: Some(witness path) if an un-noised dependency on a protected table exists.
fn lineage<'a>(
    r: &'a Relation,
    protected: &dyn Fn(&str) -> bool,
    memo: &mut Vec<(&'a Relation, Vec<Option<String>>)>,
) -> Vec<Option<String>> {
    if let Some((_, v)) = memo.iter().find(|(n, _)| n.name() == r.name() && *n == r) {
        return v.clone();
    }
    let out: Vec<Option<String>> = match r {
        Relation::Table(t) => {
            let path = t.path().to_string();
            let prot = protected(&path);
            r.schema().iter().map(|f| if prot { Some(format!("{}.{}", path, f.name())) } else { None }).collect()
        }
        Relation::Values(_) => r.schema().iter().map(|_| None).collect(),
        Relation::Map(m) => {
            let ti = lineage(m.input(), protected, memo);
            let names: Vec<String> = m.input().schema().iter().map(|f| f.name().to_string()).collect();
            if is_threshold_map(m) {
                m.schema().iter().map(|_| None).collect()
            } else {
                m.field_exprs()
                    .into_iter()
                    .map(|(field, expr)| {
                        if contains_bm_fragment(expr) {
                            return None;
                        }
                        let mut cols = vec![];
                        columns_of(expr, &mut cols);
                        for c in cols {
                            if let Some(i) = names.iter().position(|n| *n == c) {
                                if let Some(w) = &ti[i] {
                                    return Some(format!("{}.{} <- {}", m.name(), field.name(), w));
                                }
                            }
                        }
                        None
                    })
                    .collect()
            }
        }
        Relation::Reduce(red) => {
            let ti = lineage(red.input(), protected, memo);
            let names: Vec<String> = red.input().schema().iter().map(|f| f.name().to_string()).collect();
            red.field_aggregates()
                .into_iter()
                .map(|(field, agg)| {
                    let c = agg.column().last().ok()?.to_string();
                    let i = names.iter().position(|n| *n == c)?;
                    ti[i].as_ref().map(|w| format!("{}.{} <- {}", red.name(), field.name(), w))
                })
                .collect()
        }
        Relation::Join(j) => {
            let mut v = lineage(j.left(), protected, memo);
            v.extend(lineage(j.right(), protected, memo));
            let names: Vec<String> = j.schema().iter().map(|f| f.name().to_string()).collect();
            v.into_iter().zip(names).map(|(w, n)| w.map(|w| format!("{}.{} <- {}", j.name(), n, w))).collect()
        }
        Relation::Set(s) => {
            let l = lineage(s.left(), protected, memo);
            let rr = lineage(s.right(), protected, memo);
            let names: Vec<String> = s.schema().iter().map(|f| f.name().to_string()).collect();
            (0..names.len())
                .map(|i| {
                    let w = l.get(i).cloned().flatten().or_else(|| rr.get(i).cloned().flatten());
                    w.map(|w| format!("{}.{} <- {}", s.name(), names[i], w))
                })
                .collect()
        }
    };
    memo.push((r, out.clone()));
    out
}

/// Output columns of `root` that depend on a protected table column without crossing noise or
/// the key-release map: (column name, lineage witness).
pub fn unnoised_outputs(root: &Relation, protected: &dyn Fn(&str) -> bool) -> Vec<(String, String)> {
    let mut memo = vec![];
    let v = lineage(root, protected, &mut memo);
    root.schema()
        .iter()
        .zip(v)
        .filter_map(|(f, w)| w.map(|w| (f.name().to_string(), w)))
        .collect()
}


/// The bound of the per-unit contribution cap below a key-release threshold: the literal `n` of
/// a filter `_CONTRIBUTION_INDEX_ <= n` found in the input of the threshold's noise map.
pub fn cap_below(th: &Threshold) -> Option<f64> {
    let mut best: Option<f64> = None;
    for n in nodes(&th.noise.input) {
        if let Relation::Map(m) = n {
            if let Some(f) = m.filter() {
                let mut stack = vec![f.clone()];
                while let Some(e) = stack.pop() {
                    if let Some((fun, args)) = func(&e) {
                        if matches!(fun, F::LtEq) && args.len() == 2 {
                            if let (Expr::Column(c), Expr::Value(v)) = (&args[0], &args[1]) {
                                if c.last().map_or(false, |l| l.contains("_CONTRIBUTION_INDEX_")) {
                                    if let Ok(x) = v.to_string().parse::<f64>() {
                                        best = Some(best.map_or(x, |b: f64| b.min(x)));
                                    }
                                }
                            }
                        }
                        stack.extend(args);
                    }
                }
            }
        }
    }
    best
}
