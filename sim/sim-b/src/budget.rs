//! Policy-free budget arithmetic shared by C01, C03, C04 (DESIGN 3): classical Gaussian
//! calibration, the optimal delta split (Lagrange, nested bisection), the normal tail from
//! glibc's erfc (independent of the statrs the implementation uses) and the tau inversion.

extern "C" {
    fn erfc(x: f64) -> f64;
}

/// g(delta) = sqrt(2 ln(1.25/delta)): epsilon = g(delta) * sensitivity / sigma.
pub fn g(delta: f64) -> f64 {
    (2.0 * (1.25 / delta).ln()).sqrt()
}

/// Noise multiplier sigma/C of the classical calibration.
pub fn noise_multiplier(eps: f64, delta: f64) -> f64 {
    g(delta) / eps
}

/// min over (delta_j) with sum delta_j <= delta of sum_j a_j g(delta_j), a_j >= 0.
/// g is convex and decreasing on (0, 1/2], so the Lagrange condition a_j / (delta_j g(delta_j)) =
/// lambda characterises the minimum; solved by bisection on lambda with an inner bisection for
/// delta_j. Returns +inf if delta <= 0 and some a_j > 0.
pub fn min_epsilon(a: &[f64], delta: f64) -> f64 {
    let pos: Vec<f64> = a.iter().cloned().filter(|x| *x > 0.0).collect();
    if pos.is_empty() {
        return 0.0;
    }
    if !(delta > 0.0) {
        return f64::INFINITY;
    }
    if pos.len() == 1 {
        return pos[0] * g(delta.min(0.5));
    }
    let delta = delta.min(0.5);
    // h(d) = d * g(d), increasing on (0, 0.75)
    let h_inv = |y: f64| -> f64 {
        // find d in (0, delta] with d*g(d) = y (clamped)
        let (mut lo, mut hi) = (1e-300f64.ln(), delta.ln());
        if delta * g(delta) <= y {
            return delta;
        }
        for _ in 0..200 {
            let mid = 0.5 * (lo + hi);
            let d = mid.exp();
            if d * g(d) < y {
                lo = mid;
            } else {
                hi = mid;
            }
        }
        (0.5 * (lo + hi)).exp()
    };
    let total = |lambda: f64| -> f64 { pos.iter().map(|aj| h_inv(aj / lambda)).sum() };
    // total(lambda) is decreasing in lambda; find lambda with total = delta
    let amax = pos.iter().cloned().fold(0.0, f64::max);
    let (mut lo, mut hi) = ((amax * 1e-30f64).ln(), (amax * 1e300f64).min(f64::MAX).ln());
    for _ in 0..300 {
        let mid = 0.5 * (lo + hi);
        if total(mid.exp()) > delta {
            lo = mid;
        } else {
            hi = mid;
        }
    }
    let lambda = hi.exp();
    let ds: Vec<f64> = pos.iter().map(|aj| h_inv(aj / lambda)).collect();
    let mut best: f64 = pos.iter().zip(ds.iter()).map(|(a, d)| a * g(*d)).sum();
    // the equal split is feasible too; the minimum cannot be above it
    let eq: f64 = pos.iter().map(|a| a * g(delta / pos.len() as f64)).sum();
    if eq < best {
        best = eq;
    }
    best
}

/// Upper tail of the standard normal, Q(z) = P(Z > z).
pub fn q(z: f64) -> f64 {
    0.5 * unsafe { erfc(z / std::f64::consts::SQRT_2) }
}

/// delta implied by a threshold at z standard deviations above 1 for a unit spread over cu
/// groups: 1 - (1 - Q(z))^cu, computed without cancellation.
pub fn delta_of_z(z: f64, cu: f64) -> f64 {
    -((cu * (-q(z)).ln_1p()).exp_m1())
}

/// z such that delta_of_z(z, cu) = delta (bisection on the same erfc).
pub fn z_of_delta(delta: f64, cu: f64) -> f64 {
    let (mut lo, mut hi) = (-40.0f64, 40.0f64);
    for _ in 0..200 {
        let mid = 0.5 * (lo + hi);
        if delta_of_z(mid, cu) > delta {
            lo = mid;
        } else {
            hi = mid;
        }
    }
    0.5 * (lo + hi)
}

/// sigma and tau required by (eps, delta) and cu for the thresholding mechanism.
pub fn required_tau(eps: f64, delta: f64, cu: f64) -> (f64, f64) {
    let sigma = g(delta) * cu.sqrt() / eps;
    (sigma, 1.0 + sigma * z_of_delta(delta, cu))
}

#[cfg(test)]
mod tests {
    use super::*;
    #[test]
    fn split() {
        let e = min_epsilon(&[1.0, 1.0], 1e-4);
        let eq = 2.0 * g(5e-5);
        assert!((e - eq).abs() < 1e-9 * eq, "{} {}", e, eq);
        let e2 = min_epsilon(&[1.0, 0.0001], 1e-4);
        assert!(e2 <= 1.0 * g(5e-5) + 0.0001 * g(5e-5));
        assert!(e2 >= g(1e-4));
    }
    #[test]
    fn tail() {
        assert!((q(0.0) - 0.5).abs() < 1e-15);
        let z = z_of_delta(1e-6, 3.0);
        assert!((delta_of_z(z, 3.0) - 1e-6).abs() < 1e-15);
    }
}
