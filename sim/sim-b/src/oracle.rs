//! Common types of the five Sim-B oracles and the per-run record the driver merges.
use simcommon::engine::{DrawPlan, Engine, ResultSet, SiteKey, SiteLog};
use simcommon::scenario::{Cell, Scenario, TableSpec};
use serde::{Deserialize, Serialize};
use std::collections::BTreeMap;

#[derive(Serialize, Deserialize, Clone, Debug, PartialEq)]
pub struct Violation {
    pub property: String,
    /// Which invariant failed (stable identifier: replay must fail the same one).
    pub invariant: String,
    /// Narrow class used to match the known-findings file; "unclassified" otherwise.
    pub class: String,
    pub detail: String,
    pub witness: serde_json::Value,
}

#[derive(Serialize, Deserialize, Clone, Debug, Default, PartialEq)]
pub struct Stats {
    pub statements: u64,
    pub draws: u64,
    pub executions: u64,
    /// fault kind -> times it actually fired in this run
    pub faults: BTreeMap<String, u64>,
    /// probe counters (never gating)
    pub probes: BTreeMap<String, u64>,
}

impl Stats {
    pub fn fault(&mut self, k: &str) {
        *self.faults.entry(k.to_string()).or_default() += 1;
    }
    pub fn probe(&mut self, k: &str) {
        *self.probes.entry(k.to_string()).or_default() += 1;
    }
    pub fn probe_n(&mut self, k: &str, n: u64) {
        *self.probes.entry(k.to_string()).or_default() += n;
    }
}

#[derive(Serialize, Deserialize, Clone, Debug, PartialEq)]
pub enum Verdict {
    /// The oracle had something to compare and it held.
    Ok,
    /// Nothing to compare (reason): refused query, clipping active, engine gap...
    Skip(String),
    Violations(Vec<Violation>),
}

#[derive(Serialize, Deserialize, Clone, Debug)]
pub struct RunRecord {
    pub seed: u64,
    pub run: u64,
    pub property: String,
    pub verdict: Verdict,
    /// Shape key of a non-trivial run (distinct_nontrivial counts distinct values of it).
    pub shape: Option<String>,
    pub tags: Vec<String>,
    pub stats: Stats,
    /// Event log digest of the run (determinism self-test diffs these).
    pub digest: String,
    /// Event log of the run, kept for runs that were not a plain pass.
    pub notes: Vec<String>,
    pub scenario: Option<Scenario>,
}

pub struct Exec<'a> {
    pub stats: &'a mut Stats,
    pub log: &'a mut Vec<String>,
}

impl<'a> Exec<'a> {
    pub fn engine(&mut self, tables: &[&TableSpec]) -> Result<Engine, String> {
        Engine::new(tables)
    }
    pub fn query(
        &mut self,
        eng: &mut Engine,
        what: &str,
        sql: &str,
        plan: &DrawPlan,
    ) -> Result<(ResultSet, BTreeMap<SiteKey, SiteLog>), String> {
        let r = eng.query(sql, plan);
        if std::env::var("VERIF_DEBUG_SQL").is_ok() {
            eprintln!("SQL[{}] {}\n  -> {:?}", what, sql, r.as_ref().map(|x| x.0.rows.iter().take(6).collect::<Vec<_>>()));
        }
        self.stats.statements += 1;
        self.stats.executions += 1;
        match &r {
            Ok((rs, log)) => {
                let d: u64 = log.values().map(|l| l.calls).sum();
                self.stats.draws += d;
                for (k, l) in log {
                    let kind = match (k.role, k.alias.as_str()) {
                        (simcommon::engine::Role::Other, simcommon::engine::CAP_ALIAS) => "draw_cap",
                        (simcommon::engine::Role::Other, simcommon::engine::ROW_ID_ALIAS) => "draw_row_id",
                        (simcommon::engine::Role::Other, _) => "draw_other",
                        (_, simcommon::engine::THRESHOLD_ALIAS) => "draw_threshold_noise",
                        _ => "draw_aggregate_noise",
                    };
                    *self.stats.faults.entry(kind.to_string()).or_default() += l.calls;
                }
                self.log.push(format!("exec {} rows={} draws={} h={:016x}", what, rs.rows.len(), d, hash_rows(rs)));
            }
            Err(e) => self.log.push(format!("exec {} error={}", what, e)),
        }
        r
    }
}

pub fn hash_rows(rs: &ResultSet) -> u64 {
    let mut h: u64 = 0xcbf29ce484222325;
    let mut feed = |s: &str| {
        for b in s.bytes() {
            h ^= b as u64;
            h = h.wrapping_mul(0x100000001b3);
        }
        h ^= 0xff;
        h = h.wrapping_mul(0x100000001b3);
    };
    for c in &rs.columns {
        feed(c);
    }
    // order-insensitive over rows (unordered relations), order-sensitive inside a row
    let mut acc: u64 = 0;
    for r in &rs.rows {
        let mut hr: u64 = 0x9e3779b97f4a7c15;
        for c in r {
            let s = match c {
                Cell::Float(f) => format!("f:{:?}", f),
                other => other.key(),
            };
            for b in s.bytes() {
                hr ^= b as u64;
                hr = hr.wrapping_mul(0x100000001b3);
            }
            hr = hr.rotate_left(7);
        }
        acc = acc.wrapping_add(hr);
    }
    h ^ acc
}

pub fn digest(lines: &[String]) -> String {
    let mut h: u64 = 0xcbf29ce484222325;
    for l in lines {
        for b in l.bytes() {
            h ^= b as u64;
            h = h.wrapping_mul(0x100000001b3);
        }
        h ^= 0x0a;
        h = h.wrapping_mul(0x100000001b3);
    }
    format!("{:016x}", h)
}

pub fn num(c: &Cell) -> Option<f64> {
    c.as_f64()
}

/// Rows keyed by the canonical text of the key columns.
pub fn by_key(rs: &ResultSet, key_cols: &[usize]) -> BTreeMap<Vec<String>, Vec<Cell>> {
    let mut m = BTreeMap::new();
    for r in &rs.rows {
        let k: Vec<String> = key_cols.iter().map(|i| r[*i].key()).collect();
        m.insert(k, r.clone());
    }
    m
}

use crate::pipeline::{self, CompileError, Compiled};

/// Compile the scenario; anything but an accepted query ends the run as a (counted) skip.
pub fn compile_or_skip(sc: &Scenario, ex: &mut Exec) -> Result<Compiled, Verdict> {
    match pipeline::compile(sc) {
        Ok(c) => Ok(c),
        Err(CompileError::Refused(_)) => Err(Verdict::Skip("refused".into())),
        Err(CompileError::Parse(e)) | Err(CompileError::Relation(e)) => {
            ex.log.push(format!("rejected {}", e.lines().next().unwrap_or("")));
            Err(Verdict::Skip("rejected".into()))
        }
        Err(CompileError::Panic(p)) => {
            ex.stats.probe("compile_panic");
            ex.log.push(format!("panic {}", p.lines().next().unwrap_or("")));
            Err(Verdict::Skip("compile_panic".into()))
        }
    }
}

/// Coarse shape: privacy-unit kind, FROM shape, key shape, aggregate set.
pub fn coarse_shape(sc: &Scenario, extra: &str) -> String {
    format!(
        "{}|{}",
        sc.tags
            .iter()
            .filter(|t| t.starts_with("pu:") || t.starts_with("from:") || t.starts_with("keys:") || t.starts_with("aggs:") || *t == "synthetic" || *t == "plain")
            .cloned()
            .collect::<Vec<_>>()
            .join(";"),
        extra
    )
}

/// Minimal shape: privacy-unit kind and key shape only.
pub fn mini_shape(sc: &Scenario, extra: &str) -> String {
    format!(
        "{}|{}",
        sc.tags.iter().filter(|t| t.starts_with("pu:") || t.starts_with("keys:") || *t == "synthetic").cloned().collect::<Vec<_>>().join(";"),
        extra
    )
}

pub fn shape_of(sc: &Scenario, extra: &str) -> String {
    format!(
        "{}|{}",
        sc.tags
            .iter()
            .filter(|t| {
                t.starts_with("pu:")
                    || t.starts_with("from:")
                    || t.starts_with("keys:")
                    || t.starts_with("aggs:")
                    || *t == "having"
                    || *t == "outer"
                    || *t == "where"
                    || *t == "synthetic"
                    || *t == "plain"
                    || t.starts_with("hist:")
            })
            .cloned()
            .collect::<Vec<_>>()
            .join(";"),
        extra
    )
}

pub fn short(e: &str) -> String {
    let e = match e.find("name:") {
        Some(i) => &e[..i + 4],
        None => e,
    };
    let s: String = e.chars().take(60).collect();
    s.replace(|c: char| c.is_ascii_digit(), "#")
}

/// Multiset equality of result rows with a relative tolerance on floats (sums are taken in
/// another row order).
pub fn same_rows_tol(a: &ResultSet, b: &ResultSet, rel: f64) -> bool {
    if a.rows.len() != b.rows.len() {
        return false;
    }
    let cell_eq = |x: &Cell, y: &Cell| -> bool {
        match (x, y) {
            (Cell::Float(_), _) | (_, Cell::Float(_)) => match (x.as_f64(), y.as_f64()) {
                (Some(p), Some(q)) => (p - q).abs() <= rel * (1.0 + p.abs().max(q.abs())),
                (None, None) => true,
                _ => false,
            },
            _ => x.key() == y.key(),
        }
    };
    let mut used = vec![false; b.rows.len()];
    for x in &a.rows {
        let mut found = false;
        for (j, y) in b.rows.iter().enumerate() {
            if !used[j] && x.len() == y.len() && x.iter().zip(y.iter()).all(|(p, q)| cell_eq(p, q)) {
                used[j] = true;
                found = true;
                break;
            }
        }
        if !found {
            return false;
        }
    }
    true
}
