//! The simulated engine: real SQLite behind `rusqlite`, with the random source owned by the
//! simulator (DESIGN 2.2). `SIM_U1`, `SIM_U2`, `SIM_RANDOM` are served from a draw plan; every
//! call is logged per site. `MD5`, `GREATEST`, `LEAST`, `STDDEV`, `VARIANCE` are engine
//! adaptation stubs (PostgreSQL functions SQLite lacks).
use crate::scenario::{Cell, TableSpec};
use rusqlite::{
    functions::{Aggregate, Context, FunctionFlags},
    types::{Value, ValueRef},
    Connection,
};
use serde::{Deserialize, Serialize};
use std::{
    collections::BTreeMap,
    sync::{Arc, Mutex},
};

#[derive(Serialize, Deserialize, Clone, Copy, Debug, PartialEq, Eq, PartialOrd, Ord, Hash)]
pub enum Role {
    /// Box-Muller radius uniform: the argument of LN.
    U1,
    /// Box-Muller angle uniform: inside COS(2 pi * .).
    U2,
    /// Everything else: capping order, row-privacy ids, sampling.
    Other,
}

#[derive(Serialize, Deserialize, Clone, Debug, PartialEq)]
pub enum DrawMode {
    /// PRNG keyed by (engine seed, site, call index at the site).
    Seeded,
    /// The same value on every call (forced schedules; ties on the capping site).
    Const(f64),
    /// Strictly increasing / decreasing in call order: a deterministic order that is preserved
    /// when rows are deleted, which makes executions on D and D' coupled per row.
    Inc,
    Dec,
    /// Seeded, but quantised to `m` distinct values (fault F-tie: duplicated draws).
    Coarse(u32),
}

/// Which value each call gets. `noise_sites` selects, by the alias of the column the draw feeds,
/// which sites the `threshold_*` modes apply to (the tau-thresholding noise) versus the
/// aggregate noise.
#[derive(Serialize, Deserialize, Clone, Debug, PartialEq)]
pub struct DrawPlan {
    pub agg_u1: DrawMode,
    pub agg_u2: DrawMode,
    pub thr_u1: DrawMode,
    pub thr_u2: DrawMode,
    pub cap: DrawMode,
    pub row_id: DrawMode,
    pub other: DrawMode,
    pub seed: u64,
    /// Per-site overrides (site id of the draw, mode): a single noise site forced on its own.
    #[serde(default)]
    pub overrides: Vec<(i64, DrawMode)>,
}

pub const THRESHOLD_ALIAS: &str = "_COUNT_DISTINCT_PID_";
pub const CAP_ALIAS: &str = "_RANDOM_";
pub const ROW_ID_ALIAS: &str = "_PRIVACY_UNIT_ROW_";

/// U1 = 1 exactly: ln(1) = 0, every Gaussian term is exactly 0 * sigma.
pub const NEUTRAL_U1: f64 = 1.0;
pub const NEUTRAL_U2: f64 = 0.25;

impl DrawPlan {
    pub fn seeded(seed: u64) -> DrawPlan {
        DrawPlan {
            agg_u1: DrawMode::Seeded,
            agg_u2: DrawMode::Seeded,
            thr_u1: DrawMode::Seeded,
            thr_u2: DrawMode::Seeded,
            cap: DrawMode::Seeded,
            row_id: DrawMode::Seeded,
            other: DrawMode::Seeded,
            seed,
            overrides: vec![],
        }
    }
    /// Force one noised column (its two Box-Muller sites) to z * sigma, whatever the rest does.
    pub fn with_site_z(mut self, u1_site: i64, u2_site: i64, z: f64) -> DrawPlan {
        let (a, b) = DrawPlan::z_modes(z);
        self.overrides.push((u1_site, a));
        self.overrides.push((u2_site, b));
        self
    }
    /// Every Gaussian term exactly zero (aggregates and threshold); other roles seeded.
    pub fn neutral(seed: u64) -> DrawPlan {
        DrawPlan {
            agg_u1: DrawMode::Const(NEUTRAL_U1),
            agg_u2: DrawMode::Const(NEUTRAL_U2),
            thr_u1: DrawMode::Const(NEUTRAL_U1),
            thr_u2: DrawMode::Const(NEUTRAL_U2),
            ..DrawPlan::seeded(seed)
        }
    }
    /// Gaussian term exactly z * sigma: U1 = exp(-z^2/2), U2 = 0 (cos = 1) or 1/2 (cos = -1).
    pub fn z_modes(z: f64) -> (DrawMode, DrawMode) {
        let u1 = (-(z * z) / 2.0).exp();
        let u2 = if z >= 0.0 { 0.0 } else { 0.5 };
        (DrawMode::Const(u1), DrawMode::Const(u2))
    }
    pub fn with_agg_z(mut self, z: f64) -> DrawPlan {
        let (a, b) = DrawPlan::z_modes(z);
        self.agg_u1 = a;
        self.agg_u2 = b;
        self
    }
    pub fn with_thr_z(mut self, z: f64) -> DrawPlan {
        let (a, b) = DrawPlan::z_modes(z);
        self.thr_u1 = a;
        self.thr_u2 = b;
        self
    }
    pub fn release_all(self) -> DrawPlan {
        self.with_thr_z(30.0)
    }
    pub fn release_none(self) -> DrawPlan {
        self.with_thr_z(-30.0)
    }
    pub fn with_cap(mut self, m: DrawMode) -> DrawPlan {
        self.cap = m;
        self
    }
    pub fn with_row_id(mut self, m: DrawMode) -> DrawPlan {
        self.row_id = m;
        self
    }
    fn mode(&self, role: Role, alias: &str, site: i64) -> &DrawMode {
        if role != Role::Other {
            if let Some((_, m)) = self.overrides.iter().find(|(s, _)| *s == site) {
                return m;
            }
        }
        match role {
            Role::U1 => {
                if alias == THRESHOLD_ALIAS {
                    &self.thr_u1
                } else {
                    &self.agg_u1
                }
            }
            Role::U2 => {
                if alias == THRESHOLD_ALIAS {
                    &self.thr_u2
                } else {
                    &self.agg_u2
                }
            }
            Role::Other => {
                if alias == CAP_ALIAS {
                    &self.cap
                } else if alias == ROW_ID_ALIAS {
                    &self.row_id
                } else {
                    &self.other
                }
            }
        }
    }
}

#[derive(Serialize, Deserialize, Clone, Debug, PartialEq, Eq, PartialOrd, Ord, Hash)]
pub struct SiteKey {
    pub role: Role,
    pub site: i64,
    pub alias: String,
}

#[derive(Serialize, Deserialize, Clone, Debug, PartialEq, Default)]
pub struct SiteLog {
    pub calls: u64,
    pub first: Vec<f64>,
}

#[derive(Default)]
struct DrawState {
    plan: Option<DrawPlan>,
    log: BTreeMap<SiteKey, SiteLog>,
}

fn mix(mut z: u64) -> u64 {
    z = (z ^ (z >> 30)).wrapping_mul(0xbf58476d1ce4e5b9);
    z = (z ^ (z >> 27)).wrapping_mul(0x94d049bb133111eb);
    z ^ (z >> 31)
}

fn site_hash(k: &SiteKey) -> u64 {
    let mut h: u64 = 0xcbf29ce484222325;
    for b in k.alias.bytes() {
        h ^= b as u64;
        h = h.wrapping_mul(0x100000001b3);
    }
    mix(h ^ mix(k.site as u64 ^ ((k.role as u64) << 56)))
}

impl DrawState {
    fn draw(&mut self, key: SiteKey) -> f64 {
        let plan = self.plan.as_ref().expect("draw without a plan");
        let entry = self.log.entry(key.clone()).or_default();
        let k = entry.calls;
        entry.calls += 1;
        let mode = plan.mode(key.role, &key.alias, key.site);
        let seeded = |k: u64| -> f64 {
            let v = mix(mix(plan.seed ^ 0x5851f42d4c957f2d) ^ site_hash(&key) ^ mix(k.wrapping_add(1)));
            // open interval (0,1): never 0 so that ln() is finite, as a real random() in (0,1)
            ((v >> 11) as f64 + 0.5) / (1u64 << 53) as f64
        };
        let v = match mode {
            DrawMode::Seeded => seeded(k),
            DrawMode::Const(c) => *c,
            DrawMode::Inc => (k as f64 + 1.0) / 4294967296.0,
            DrawMode::Dec => 1.0 - (k as f64 + 1.0) / 4294967296.0,
            DrawMode::Coarse(m) => {
                let m = (*m).max(1) as f64;
                ((seeded(k) * m).floor() + 0.5) / m
            }
        };
        if entry.first.len() < 4 {
            entry.first.push(v);
        }
        v
    }
}

#[derive(Clone, Debug, PartialEq, Serialize, Deserialize)]
pub struct ResultSet {
    pub columns: Vec<String>,
    pub rows: Vec<Vec<Cell>>,
}

impl ResultSet {
    pub fn col(&self, name: &str) -> Option<usize> {
        self.columns.iter().position(|c| c == name)
    }
}

pub struct Engine {
    conn: Connection,
    state: Arc<Mutex<DrawState>>,
    pub statements: u64,
    ops: Arc<std::sync::atomic::AtomicU64>,
}

struct VarAgg {
    sample: bool,
    sqrt: bool,
}

impl Aggregate<(f64, f64, f64), Option<f64>> for VarAgg {
    fn init(&self, _: &mut Context<'_>) -> rusqlite::Result<(f64, f64, f64)> {
        Ok((0.0, 0.0, 0.0))
    }
    fn step(&self, ctx: &mut Context<'_>, acc: &mut (f64, f64, f64)) -> rusqlite::Result<()> {
        // Welford
        let x = match ctx.get_raw(0) {
            ValueRef::Integer(i) => i as f64,
            ValueRef::Real(f) => f,
            _ => return Ok(()),
        };
        acc.0 += 1.0;
        let d = x - acc.1;
        acc.1 += d / acc.0;
        acc.2 += d * (x - acc.1);
        Ok(())
    }
    fn finalize(
        &self,
        _: &mut Context<'_>,
        acc: Option<(f64, f64, f64)>,
    ) -> rusqlite::Result<Option<f64>> {
        let (n, _, m2) = acc.unwrap_or((0.0, 0.0, 0.0));
        let denom = if self.sample { n - 1.0 } else { n };
        if denom <= 0.0 {
            return Ok(None);
        }
        let v = m2 / denom;
        Ok(Some(if self.sqrt { v.sqrt() } else { v }))
    }
}

fn cell_to_value(c: &Cell) -> Value {
    match c {
        Cell::Null => Value::Null,
        Cell::Int(i) => Value::Integer(*i),
        Cell::Float(f) => Value::Real(*f),
        Cell::Text(t) => Value::Text(t.clone()),
        Cell::Bool(b) => Value::Integer(if *b { 1 } else { 0 }),
    }
}

fn hex128(s: &[u8]) -> String {
    // Not MD5: any fixed injective-looking digest does for unit ids (stub, listed as such).
    let mut a: u64 = 0x243f6a8885a308d3;
    let mut b: u64 = 0x13198a2e03707344;
    for (i, x) in s.iter().enumerate() {
        a = mix(a ^ (*x as u64) ^ ((i as u64) << 8));
        b = mix(b.wrapping_add(a).rotate_left(17) ^ (*x as u64));
    }
    format!("{:016x}{:016x}", a, b)
}

/// Virtual-machine operations one statement may use (ordinary scenario statements use well under
/// a million).
pub const VM_OPS_BUDGET: u64 = 400_000_000;

/// `VERIF_VM_OPS_BUDGET` overrides the budget (self-test of the budget itself).
fn vm_ops_budget() -> u64 {
    std::env::var("VERIF_VM_OPS_BUDGET").ok().and_then(|v| v.parse().ok()).unwrap_or(VM_OPS_BUDGET)
}

impl Engine {
    pub fn new(tables: &[&TableSpec]) -> Result<Engine, String> {
        let conn = Connection::open_in_memory().map_err(|e| e.to_string())?;
        // No "double-quoted string literal" misfeature: an unknown "identifier" must be an error.
        unsafe {
            rusqlite::ffi::sqlite3_db_config(conn.handle(), 1013, 0i32, std::ptr::null_mut::<i32>());
            rusqlite::ffi::sqlite3_db_config(conn.handle(), 1014, 0i32, std::ptr::null_mut::<i32>());
        }
        // a statement may not run away (a changed compiler can emit a query whose joins explode):
        // the budget is counted in virtual-machine operations, not in time, so that hitting it is
        // as repeatable as everything else
        let ops = Arc::new(std::sync::atomic::AtomicU64::new(0));
        {
            let ops = ops.clone();
            conn.progress_handler(
                100_000,
                Some(move || ops.fetch_add(1, std::sync::atomic::Ordering::Relaxed) + 1 > vm_ops_budget() / 100_000),
            );
        }
        let state = Arc::new(Mutex::new(DrawState::default()));
        for (name, role) in [("SIM_U1", Role::U1), ("SIM_U2", Role::U2), ("SIM_RANDOM", Role::Other)] {
            let st = state.clone();
            conn.create_scalar_function(name, -1, FunctionFlags::SQLITE_UTF8, move |ctx| {
                let site = if ctx.len() > 0 { ctx.get::<i64>(0).unwrap_or(-1) } else { -1 };
                let alias = if ctx.len() > 1 {
                    ctx.get::<String>(1).unwrap_or_default()
                } else {
                    String::new()
                };
                let v = st.lock().unwrap().draw(SiteKey { role, site, alias });
                Ok(v)
            })
            .map_err(|e| e.to_string())?;
        }
        conn.create_scalar_function(
            "MD5",
            1,
            FunctionFlags::SQLITE_UTF8 | FunctionFlags::SQLITE_DETERMINISTIC,
            |ctx| {
                Ok(match ctx.get_raw(0) {
                    ValueRef::Null => None,
                    ValueRef::Integer(i) => Some(hex128(i.to_string().as_bytes())),
                    ValueRef::Real(f) => Some(hex128(format!("{:?}", f).as_bytes())),
                    ValueRef::Text(t) => Some(hex128(t)),
                    ValueRef::Blob(b) => Some(hex128(b)),
                })
            },
        )
        .map_err(|e| e.to_string())?;
        for (name, greatest) in [("GREATEST", true), ("LEAST", false)] {
            conn.create_scalar_function(
                name,
                -1,
                FunctionFlags::SQLITE_UTF8 | FunctionFlags::SQLITE_DETERMINISTIC,
                move |ctx| {
                    // PostgreSQL semantics: NULLs are ignored, the result has the common type
                    // (float as soon as one argument is float).
                    let mut any_real = false;
                    let mut best_num: Option<f64> = None;
                    let mut best_int: Option<i64> = None;
                    let mut best_text: Option<String> = None;
                    for i in 0..ctx.len() {
                        match ctx.get_raw(i) {
                            ValueRef::Null => {}
                            ValueRef::Integer(v) => {
                                let f = v as f64;
                                if best_num.map_or(true, |b| if greatest { f > b } else { f < b }) {
                                    best_num = Some(f);
                                    best_int = Some(v);
                                }
                            }
                            ValueRef::Real(f) => {
                                any_real = true;
                                if best_num.map_or(true, |b| if greatest { f > b } else { f < b }) {
                                    best_num = Some(f);
                                    best_int = None;
                                }
                            }
                            ValueRef::Text(t) => {
                                let s = String::from_utf8_lossy(t).to_string();
                                if best_text
                                    .as_ref()
                                    .map_or(true, |b| if greatest { &s > b } else { &s < b })
                                {
                                    best_text = Some(s);
                                }
                            }
                            ValueRef::Blob(_) => {}
                        }
                    }
                    Ok(match (best_num, best_text) {
                        (Some(f), _) => {
                            if any_real {
                                Value::Real(f)
                            } else {
                                Value::Integer(best_int.unwrap_or(f as i64))
                            }
                        }
                        (None, Some(s)) => Value::Text(s),
                        (None, None) => Value::Null,
                    })
                },
            )
            .map_err(|e| e.to_string())?;
        }
        // PostgreSQL built-ins the stock rendering uses and SQLite lacks (or has with another arity)
        conn.create_scalar_function("CHAR_LENGTH", 1, FunctionFlags::SQLITE_UTF8 | FunctionFlags::SQLITE_DETERMINISTIC, |ctx| {
            Ok(match ctx.get_raw(0) {
                ValueRef::Null => None,
                ValueRef::Text(t) => Some(String::from_utf8_lossy(t).chars().count() as i64),
                ValueRef::Integer(i) => Some(i.to_string().len() as i64),
                ValueRef::Real(f) => Some(format!("{}", f).len() as i64),
                ValueRef::Blob(b) => Some(b.len() as i64),
            })
        })
        .map_err(|e| e.to_string())?;
        conn.create_scalar_function("CONCAT", -1, FunctionFlags::SQLITE_UTF8 | FunctionFlags::SQLITE_DETERMINISTIC, |ctx| {
            // NULL arguments are ignored
            let mut out = String::new();
            for i in 0..ctx.len() {
                match ctx.get_raw(i) {
                    ValueRef::Null => {}
                    ValueRef::Text(t) => out.push_str(&String::from_utf8_lossy(t)),
                    ValueRef::Integer(v) => out.push_str(&v.to_string()),
                    ValueRef::Real(f) => out.push_str(&format!("{}", f)),
                    ValueRef::Blob(_) => {}
                }
            }
            Ok(out)
        })
        .map_err(|e| e.to_string())?;
        conn.create_scalar_function("TRUNC", -1, FunctionFlags::SQLITE_UTF8 | FunctionFlags::SQLITE_DETERMINISTIC, |ctx| {
            let x = match ctx.get_raw(0) {
                ValueRef::Null => return Ok(Value::Null),
                ValueRef::Integer(i) => i as f64,
                ValueRef::Real(f) => f,
                _ => return Ok(Value::Null),
            };
            let d = if ctx.len() > 1 {
                match ctx.get_raw(1) {
                    ValueRef::Integer(i) => i as i32,
                    ValueRef::Real(f) => f as i32,
                    _ => return Ok(Value::Null),
                }
            } else {
                0
            };
            let m = 10f64.powi(d);
            Ok(Value::Real((x * m).trunc() / m))
        })
        .map_err(|e| e.to_string())?;
        for (name, sample, sqrt) in [
            ("VARIANCE", true, false),
            ("VAR_SAMP", true, false),
            ("VAR_POP", false, false),
            ("STDDEV", true, true),
            ("STDDEV_SAMP", true, true),
            ("STDDEV_POP", false, true),
        ] {
            conn.create_aggregate_function(
                name,
                1,
                FunctionFlags::SQLITE_UTF8 | FunctionFlags::SQLITE_DETERMINISTIC,
                VarAgg { sample, sqrt },
            )
            .map_err(|e| e.to_string())?;
        }
        let mut eng = Engine { conn, state, statements: 0, ops };
        for t in tables {
            eng.create(t)?;
        }
        Ok(eng)
    }

    fn create(&mut self, t: &TableSpec) -> Result<(), String> {
        let cols: Vec<String> = t
            .cols
            .iter()
            .map(|c| format!("\"{}\" {}", c.name, c.ty.sql_type()))
            .collect();
        self.conn
            .execute(&format!("CREATE TABLE \"{}\" ({})", t.name, cols.join(", ")), [])
            .map_err(|e| format!("create {}: {}", t.name, e))?;
        if t.rows.is_empty() {
            return Ok(());
        }
        let ph: Vec<String> = (1..=t.cols.len()).map(|i| format!("?{}", i)).collect();
        let mut stmt = self
            .conn
            .prepare(&format!("INSERT INTO \"{}\" VALUES ({})", t.name, ph.join(", ")))
            .map_err(|e| e.to_string())?;
        for r in &t.rows {
            let vals: Vec<Value> = r.iter().map(cell_to_value).collect();
            stmt.execute(rusqlite::params_from_iter(vals.iter()))
                .map_err(|e| format!("insert {}: {}", t.name, e))?;
        }
        Ok(())
    }

    /// Execute one query under a draw plan; returns rows and the per-site draw log.
    pub fn query(
        &mut self,
        sql: &str,
        plan: &DrawPlan,
    ) -> Result<(ResultSet, BTreeMap<SiteKey, SiteLog>), String> {
        {
            let mut st = self.state.lock().unwrap();
            st.plan = Some(plan.clone());
            st.log.clear();
        }
        self.statements += 1;
        self.ops.store(0, std::sync::atomic::Ordering::Relaxed);
        let mut stmt = self.conn.prepare(sql).map_err(|e| format!("prepare: {}", e))?;
        let columns: Vec<String> = stmt.column_names().iter().map(|s| s.to_string()).collect();
        let n = columns.len();
        let mut rows_out = vec![];
        let mut rows = stmt.query([]).map_err(|e| format!("query: {}", e))?;
        loop {
            match rows.next() {
                Ok(Some(row)) => {
                    let mut r = Vec::with_capacity(n);
                    for i in 0..n {
                        r.push(match row.get_ref(i).map_err(|e| e.to_string())? {
                            ValueRef::Null => Cell::Null,
                            ValueRef::Integer(v) => Cell::Int(v),
                            ValueRef::Real(f) => Cell::Float(f),
                            ValueRef::Text(t) => Cell::Text(String::from_utf8_lossy(t).to_string()),
                            ValueRef::Blob(_) => Cell::Text("<blob>".to_string()),
                        });
                    }
                    rows_out.push(r);
                }
                Ok(None) => break,
                Err(e) => {
                    if self.ops.load(std::sync::atomic::Ordering::Relaxed) > vm_ops_budget() / 100_000 {
                        return Err(format!("engine_budget: statement exceeded {} virtual-machine operations", vm_ops_budget()));
                    }
                    return Err(format!("step: {}", e));
                }
            }
        }
        let log = self.state.lock().unwrap().log.clone();
        Ok((ResultSet { columns, rows: rows_out }, log))
    }

    pub fn pragma(&mut self, sql: &str) -> Result<(), String> {
        self.conn.execute_batch(sql).map_err(|e| e.to_string())
    }
}
