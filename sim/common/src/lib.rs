//! Shared pieces of the two simulators: the seed-stream PRNG (DESIGN 2.3), the scenario model and
//! generator, the simulated engine and the translator seam.
pub mod engine;
pub mod gen;
pub mod query;
pub mod rng;
pub mod scenario;
pub mod translator;
pub use rng::Rng;
