//! Shared pieces of the two simulators: the seed-stream PRNG (DESIGN 2.3).
pub mod rng;
pub use rng::Rng;
