//! Shared pieces of the two simulators: the seed-stream PRNG (DESIGN 2.3), the scenario model and
//! generator, the simulated engine and the translator seam.
pub mod engine;
pub mod gen;
pub mod query;
pub mod rng;
pub mod scenario;
pub mod translator;
pub use rng::Rng;

/// Tell the getrandom shim that a new run starts (its key stream restarts from the run's seed).
pub fn new_hash_epoch() {
    static EPOCH: std::sync::atomic::AtomicU64 = std::sync::atomic::AtomicU64::new(1);
    let e = EPOCH.fetch_add(1, std::sync::atomic::Ordering::SeqCst);
    std::env::set_var("VERIF_HASH_EPOCH", e.to_string());
}
