//! Seeded scenario generator (DESIGN 2.2): catalogue, privacy unit, parameters, query, instance,
//! compile-side state. Every choice comes from a named sub-stream of (seed, run).
use crate::query::*;
use crate::scenario::*;
use crate::Rng;

/// Per-property bias of the generator.
#[derive(Clone, Debug)]
pub struct Profile {
    /// Only public-valued keys (C09's hypothesis).
    pub public_keys_only: bool,
    /// At least one private key (C04).
    pub need_private_key: bool,
    /// Keep every unit within the multiplicity the bound allows and all data faults off (C09).
    pub benign_data: bool,
    /// Probability of plain (non-aggregating) queries and of synthetic twins (C02).
    pub p_plain: f64,
    pub p_synthetic: f64,
    pub p_public_table: f64,
    pub p_distinct: f64,
    pub p_row_privacy: f64,
    /// Probability that a grouped query is generated at all.
    pub p_grouped: f64,
    pub p_outer: f64,
    /// Every table with every pool column (Sim-A's fixed-shape catalogue for its query corpus).
    pub full_catalogue: bool,
    /// Probability of a nested DP sub-query (global statistic cross-joined into the aggregation).
    pub p_nested: f64,
    /// Probability of the "sub-query used twice" shape: a CTE aggregation released once as is and
    /// re-aggregated once, combined by UNION ALL.
    pub p_shared_cte: f64,
    pub p_alias_shadow: f64,
    pub p_cross: f64,
    pub p_outer_kinds: f64,
    pub p_modulo: f64,
    pub p_key_via_agg: f64,
    pub p_fn_exprs: f64,
    pub p_math_exprs: f64,
    pub p_where_col_cmp: f64,
    pub p_where_fn: f64,
    pub p_one_to_one: f64,
    pub p_many_aggs: f64,
    pub p_hidden_keys: f64,
    pub p_keys_only: f64,
    pub p_nested_published: f64,
    pub p_schema_path: f64,
    pub p_cond_agg: f64,
    pub p_inner_where: f64,
    pub p_join_of_subqueries: f64,
    pub p_on_or: f64,
    pub p_extra_select: f64,
    pub p_pu_without_root: f64,
    pub p_nested_by_id: f64,
    pub p_count_of_unique: f64,
    pub p_unsupported_agg: f64,
    /// Probability of an aggregation over an aggregation grouped by the inner aggregate
    /// (`SELECT t.c, count(*) FROM (SELECT count(*) AS c FROM base GROUP BY key) AS t GROUP BY t.c`).
    pub p_nested_group: f64,
    /// Probability of a query combining two DP aggregations (join of two CTE aggregations on a
    /// key, or UNION ALL of two aggregations).
    pub p_multi_dp: f64,
}

impl Profile {
    pub fn for_prop(prop: &str) -> Profile {
        let base = Profile {
            public_keys_only: false,
            need_private_key: false,
            benign_data: false,
            p_plain: 0.0,
            p_synthetic: 0.1,
            p_public_table: 0.25,
            p_distinct: 0.15,
            p_row_privacy: 0.15,
            p_grouped: 0.7,
            p_outer: 0.1,
            full_catalogue: false,
            p_nested: 0.08,
            p_shared_cte: 0.0,
            p_alias_shadow: 0.0,
            p_cross: 0.0,
            p_outer_kinds: 0.0,
            p_modulo: 0.03,
            p_key_via_agg: 0.04,
            p_fn_exprs: 0.1,
            p_math_exprs: 0.06,
            p_where_col_cmp: 0.05,
            p_where_fn: 0.05,
            p_one_to_one: 0.12,
            p_many_aggs: 0.02,
            p_hidden_keys: 0.03,
            p_keys_only: 0.0,
            p_nested_published: 0.0,
            p_schema_path: 0.0,
            p_cond_agg: 0.04,
            p_inner_where: 0.5,
            p_join_of_subqueries: 0.0,
            p_on_or: 0.0,
            p_extra_select: 0.0,
            p_pu_without_root: 0.03,
            p_nested_by_id: 0.0,
            p_count_of_unique: 0.0,
            p_unsupported_agg: 0.0,
            p_nested_group: 0.0,
            p_multi_dp: 0.0,
        };
        match prop {
            "C03" => Profile { p_nested_published: 0.5, p_nested: 0.12, p_many_aggs: 0.1, p_on_or: 0.04, p_cross: 0.04, p_outer_kinds: 0.05, p_multi_dp: 0.06, p_shared_cte: 0.05, p_nested_group: 0.03, ..base },
            "C01" => Profile { p_nested_by_id: 0.04, p_on_or: 0.06, p_cross: 0.06, p_outer_kinds: 0.06, p_shared_cte: 0.03, p_nested_group: 0.05, ..base },
            "C09" => Profile { p_one_to_one: 0.3, p_hidden_keys: 0.0, p_schema_path: 0.1, p_cond_agg: 0.15, p_where_fn: 0.2, p_where_col_cmp: 0.2, p_math_exprs: 0.2, p_count_of_unique: 0.6, p_fn_exprs: 0.25, p_modulo: 0.12, p_alias_shadow: 0.4, public_keys_only: true, benign_data: true, p_distinct: 0.12, p_row_privacy: 0.15, p_grouped: 0.65, ..base },
            "C04" => Profile { p_hidden_keys: 0.1, p_where_fn: 0.2, p_unsupported_agg: 0.08, p_key_via_agg: 0.25, p_nested_group: 0.08, p_nested: 0.0, need_private_key: true, p_grouped: 1.0, p_outer: 0.0, p_distinct: 0.05, ..base },
            "C16" => Profile { benign_data: true, full_catalogue: true, p_public_table: 1.0, p_synthetic: 0.3, ..base },
            "C02" => Profile { p_nested_published: 0.4, p_keys_only: 0.06, p_hidden_keys: 0.08, p_where_fn: 0.1, p_pu_without_root: 0.08, p_extra_select: 0.05, p_join_of_subqueries: 0.05, p_on_or: 0.04, p_unsupported_agg: 0.08, p_cross: 0.04, p_outer_kinds: 0.05, p_multi_dp: 0.04, p_nested_group: 0.03, p_shared_cte: 0.08, p_plain: 0.25, p_synthetic: 0.4, p_public_table: 0.5, p_outer: 0.2, ..base },
            _ => base,
        }
    }
}

struct ColPool {
    name: &'static str,
    variants: Vec<ColType>,
    can_be_optional: bool,
}

fn tv(v: &[&str]) -> ColType {
    ColType::TextValues(v.iter().map(|s| s.to_string()).collect())
}

fn users_pool() -> Vec<ColPool> {
    vec![
        ColPool { name: "age", variants: vec![ColType::IntRange { lo: 0, hi: 100 }, ColType::IntRange { lo: 18, hi: 90 }, ColType::IntRange { lo: -5, hi: 5 }, ColType::FloatRange { lo: 0.0, hi: 120.0 }], can_be_optional: true },
        ColPool { name: "city", variants: vec![tv(&["NY", "LA"]), tv(&["NY", "LA", "SF", "DC"]), ColType::Text], can_be_optional: false },
        ColPool { name: "score", variants: vec![ColType::FloatRange { lo: -10.0, hi: 10.0 }, ColType::FloatRange { lo: 0.0, hi: 5.0 }, ColType::FloatRange { lo: 2.5, hi: 2.5 }, ColType::FloatRange { lo: -3.0, hi: -1.0 }, ColType::FloatRange { lo: 0.0, hi: 1e-9 }], can_be_optional: true },
        ColPool { name: "vip", variants: vec![ColType::Bool], can_be_optional: false },
        ColPool { name: "zip", variants: vec![ColType::IntRange { lo: 10000, hi: 10050 }, ColType::Text], can_be_optional: false },
    ]
}

fn orders_pool() -> Vec<ColPool> {
    vec![
        ColPool { name: "amount", variants: vec![ColType::FloatRange { lo: 0.0, hi: 100.0 }, ColType::FloatRange { lo: -50.0, hi: 50.0 }, ColType::FloatRange { lo: 10.0, hi: 20.0 }, ColType::IntRange { lo: 0, hi: 1000 }, ColType::FloatRange { lo: 0.0, hi: 1e-9 }], can_be_optional: true },
        ColPool { name: "qty", variants: vec![ColType::IntRange { lo: 0, hi: 30 }, ColType::IntValues(vec![1, 2, 3, 5]), ColType::IntRange { lo: 1, hi: 3 }, ColType::IntRange { lo: 0, hi: 5 }, ColType::IntRange { lo: 1, hi: 8 }, ColType::IntValues(vec![0, 10])], can_be_optional: true },
        ColPool { name: "status", variants: vec![tv(&["a", "b", "c"]), tv(&["open", "closed"]), ColType::Text], can_be_optional: false },
        ColPool { name: "note", variants: vec![ColType::Text], can_be_optional: true },
        ColPool { name: "disc", variants: vec![ColType::FloatValues(vec![0.0, 0.5, 1.0]), ColType::FloatRange { lo: 0.0, hi: 1.0 }], can_be_optional: false },
    ]
}

fn items_pool() -> Vec<ColPool> {
    vec![
        ColPool { name: "price", variants: vec![ColType::FloatRange { lo: 0.0, hi: 50.0 }, ColType::FloatRange { lo: -20.0, hi: 20.0 }, ColType::FloatRange { lo: 1.0, hi: 2.0 }, ColType::FloatRange { lo: 0.0, hi: 1e-18 }], can_be_optional: true },
        ColPool { name: "n", variants: vec![ColType::IntValues(vec![1, 2, 4]), ColType::IntRange { lo: 0, hi: 9 }], can_be_optional: false },
        ColPool { name: "kind", variants: vec![tv(&["x", "y"]), tv(&["x", "y", "z"]), ColType::Text], can_be_optional: false },
    ]
}

fn pick_cols(rng: &mut Rng, pool: Vec<ColPool>, benign: bool, all: bool) -> Vec<ColSpec> {
    let mut v = vec![];
    for p in pool {
        if rng.chance(0.8) || all {
            let ty = p.variants[rng.usize(p.variants.len())].clone();
            let optional = p.can_be_optional && rng.chance(if benign { 0.35 } else { 0.4 });
            v.push(ColSpec { name: p.name.to_string(), ty, optional, unique: false });
        }
    }
    v
}

const TEXT_POOL: [&str; 12] = ["k0", "k1", "k2", "k3", "k4", "k5", "k6", "k7", "k8", "k9", "it's", "Z z"];

fn gen_cell(rng: &mut Rng, c: &ColSpec, null_p: f64, bound_p: f64) -> Cell {
    if c.optional && rng.chance(null_p) {
        return Cell::Null;
    }
    match &c.ty {
        ColType::IntRange { lo, hi } => {
            if rng.chance(bound_p) {
                Cell::Int(if rng.chance(0.5) { *lo } else { *hi })
            } else {
                Cell::Int(rng.range(*lo, *hi))
            }
        }
        ColType::FloatRange { lo, hi } => {
            if rng.chance(bound_p) {
                Cell::Float(if rng.chance(0.5) { *lo } else { *hi })
            } else if rng.chance(0.5) {
                // values with few binary digits: exact sums, so that equalities are sharp
                let steps = 64.0;
                let k = rng.below(steps as u64 + 1) as f64;
                Cell::Float(lo + (hi - lo) * k / steps)
            } else {
                Cell::Float(rng.uniform(*lo, *hi))
            }
        }
        ColType::IntValues(v) => Cell::Int(*rng.pick(v)),
        ColType::FloatValues(v) => Cell::Float(*rng.pick(v)),
        ColType::TextValues(v) => Cell::Text(rng.pick(v).clone()),
        ColType::Text => Cell::Text(TEXT_POOL[rng.usize(TEXT_POOL.len())].to_string()),
        ColType::Bool => Cell::Bool(rng.chance(0.5)),
    }
}

fn lit(c: &Cell) -> String {
    match c {
        Cell::Null => "NULL".into(),
        Cell::Int(i) => i.to_string(),
        Cell::Float(f) => {
            let s = format!("{:?}", f);
            s
        }
        Cell::Text(t) => format!("'{}'", t.replace('\'', "''")),
        Cell::Bool(b) => (if *b { "TRUE" } else { "FALSE" }).into(),
    }
}

fn public_set_of(ty: &ColType) -> Option<Vec<Cell>> {
    match ty {
        ColType::IntValues(v) => Some(v.iter().map(|x| Cell::Int(*x)).collect()),
        ColType::FloatValues(v) => Some(v.iter().map(|x| Cell::Float(*x)).collect()),
        ColType::TextValues(v) => Some(v.iter().map(|x| Cell::Text(x.clone())).collect()),
        ColType::Bool => Some(vec![Cell::Bool(false), Cell::Bool(true)]),
        ColType::IntRange { lo, hi } if lo == hi => Some(vec![Cell::Int(*lo)]),
        ColType::FloatRange { lo, hi } if lo == hi => Some(vec![Cell::Float(*lo)]),
        _ => None,
    }
}

pub struct Generated {
    pub scenario: Scenario,
    pub faults: Vec<String>,
}

pub fn generate(seed: u64, run: u64, prop: &str) -> Generated {
    let profile = Profile::for_prop(prop);
    let mut faults: Vec<String> = vec![];
    let mut tags: Vec<String> = vec![];

    // ---------------- catalogue ----------------
    let mut rc = Rng::stream(seed, run, "catalogue");
    let depth = if profile.full_catalogue { 3 } else { 1 + rc.weighted(&[3, 5, 3]) }; // 1..3 protected tables on the chain
    let direct_orders = !profile.full_catalogue && depth >= 2 && rc.chance(0.12); // orders carries its own unit column, no users join
    let id_hi = *rc.pick(&[100i64, 1000, 50]);
    let users_unique = rc.chance(0.6);
    let mut users = TableSpec {
        name: "users".into(),
        qrlew_name: None,
        cols: vec![ColSpec { name: "id".into(), ty: ColType::IntRange { lo: 0, hi: id_hi }, optional: false, unique: users_unique }],
        size: 0,
        rows: vec![],
    };
    let with_name_unit = rc.chance(0.15);
    if with_name_unit {
        users.cols.push(ColSpec { name: "name".into(), ty: ColType::Text, optional: false, unique: rc.chance(0.5) });
    }
    users.cols.extend(pick_cols(&mut rc, users_pool(), profile.benign_data, profile.full_catalogue));
    let with_weight = rc.chance(0.08);
    if with_weight {
        users.cols.push(ColSpec { name: "w".into(), ty: ColType::FloatRange { lo: 0.0, hi: 2.0 }, optional: false, unique: false });
    }
    let mut orders = TableSpec {
        name: "orders".into(),
        qrlew_name: None,
        cols: vec![
            ColSpec { name: "id".into(), ty: ColType::IntRange { lo: 0, hi: 100000 }, optional: false, unique: rc.chance(0.5) },
            ColSpec { name: "user_id".into(), ty: ColType::IntRange { lo: 0, hi: id_hi }, optional: false, unique: false },
        ],
        size: 0,
        rows: vec![],
    };
    orders.cols.extend(pick_cols(&mut rc, orders_pool(), profile.benign_data, profile.full_catalogue));
    let mut items = TableSpec {
        name: "items".into(),
        qrlew_name: None,
        cols: vec![ColSpec { name: "order_id".into(), ty: ColType::IntRange { lo: 0, hi: 100000 }, optional: false, unique: false }],
        size: 0,
        rows: vec![],
    };
    items.cols.extend(pick_cols(&mut rc, items_pool(), profile.benign_data, profile.full_catalogue));
    // declared integer value sets with negative members (own stream): sign-sensitive typing
    let mut rnv = Rng::stream(seed, run, "neg_values");
    if rnv.chance(0.15) {
        for t in [&mut orders, &mut items] {
            for c in t.cols.iter_mut() {
                if let ColType::IntValues(v) = &c.ty {
                    if v.len() >= 3 {
                        c.ty = ColType::IntValues(vec![-3, -1, 2, 4]);
                    }
                }
            }
        }
    }
    // ... and small integer ranges that straddle zero
    if rnv.chance(0.2) {
        for t in [&mut users, &mut orders, &mut items] {
            for c in t.cols.iter_mut() {
                if c.name.ends_with("id") {
                    continue;
                }
                if let ColType::IntRange { lo: 0, hi } = c.ty {
                    if hi <= 100 {
                        c.ty = ColType::IntRange { lo: -(hi / 2), hi: hi - hi / 2 };
                    }
                }
            }
        }
    }
    let with_public = rc.chance(profile.p_public_table);
    let regions = TableSpec {
        name: "regions".into(),
        qrlew_name: None,
        cols: vec![
            ColSpec { name: "city".into(), ty: tv(&["NY", "LA", "SF", "DC"]), optional: false, unique: true },
            ColSpec { name: "factor".into(), ty: ColType::FloatRange { lo: 0.5, hi: 2.0 }, optional: false, unique: false },
            ColSpec { name: "zone".into(), ty: tv(&["east", "west"]), optional: false, unique: false },
        ],
        size: 4,
        rows: vec![
            vec![Cell::Text("NY".into()), Cell::Float(1.5), Cell::Text("east".into())],
            vec![Cell::Text("LA".into()), Cell::Float(0.75), Cell::Text("west".into())],
            vec![Cell::Text("SF".into()), Cell::Float(2.0), Cell::Text("west".into())],
            vec![Cell::Text("DC".into()), Cell::Float(1.0), Cell::Text("east".into())],
        ],
    };

    // ---------------- privacy unit ----------------
    let mut rp = Rng::stream(seed, run, "privacy_unit");
    let row_privacy = rp.chance(profile.p_row_privacy);
    let unit_field: String = if row_privacy {
        ROW_PRIVACY.into()
    } else if with_name_unit {
        "name".into()
    } else {
        "id".into()
    };
    let weight = if with_weight && !row_privacy { Some("w".to_string()) } else { None };
    let mut entries = vec![];
    let mut protected: Vec<String> = vec![];
    if direct_orders {
        // orders is the unit-carrying table: unit = user_id (or the row); sometimes with a
        // per-row weight column
        let row_weight = !row_privacy && rp.chance(0.35);
        if row_weight {
            orders.cols.push(ColSpec { name: "w".into(), ty: ColType::FloatRange { lo: 0.0, hi: 4.0 }, optional: false, unique: false });
        }
        entries.push(PuEntry { table: "orders".into(), path: vec![], field: if row_privacy { ROW_PRIVACY.into() } else { "user_id".into() }, weight: if row_weight { Some("w".into()) } else { None } });
        protected.push("orders".into());
        if depth >= 3 {
            entries.push(PuEntry { table: "items".into(), path: vec![("order_id".into(), "orders".into(), "id".into())], field: if row_privacy { ROW_PRIVACY.into() } else { "user_id".into() }, weight: None });
            protected.push("items".into());
        }
    } else {
        entries.push(PuEntry { table: "users".into(), path: vec![], field: unit_field.clone(), weight: weight.clone() });
        protected.push("users".into());
        if depth >= 2 {
            entries.push(PuEntry { table: "orders".into(), path: vec![("user_id".into(), "users".into(), "id".into())], field: unit_field.clone(), weight: weight.clone() });
            protected.push("orders".into());
        }
        if depth >= 3 {
            entries.push(PuEntry {
                table: "items".into(),
                path: vec![("order_id".into(), "orders".into(), "id".into()), ("user_id".into(), "users".into(), "id".into())],
                field: unit_field.clone(),
                weight: weight.clone(),
            });
            protected.push("items".into());
        }
    }
    // a definition that protects tables only through their paths: the table the paths end in has
    // no entry of its own and is public (own stream)
    let mut rwr = Rng::stream(seed, run, "pu_without_root");
    if !direct_orders && depth >= 2 && !row_privacy && rwr.chance(profile.p_pu_without_root) {
        entries.retain(|e| e.table != "users");
        protected.retain(|t| t != "users");
        tags.push("pu_without_root".into());
    }
    // relation name != path for the protected tables (as in the repository's own test database);
    // the privacy-unit entries then designate the tables by relation name or by path
    let mut entries = entries;
    let alias_names = rp.chance(0.2);
    let pu_by_relation_name = rp.chance(0.5);
    if alias_names {
        for t in [&mut users, &mut orders, &mut items] {
            t.qrlew_name = Some(format!("{}_rel", t.name));
        }
        if pu_by_relation_name {
            for e in entries.iter_mut() {
                e.table = format!("{}_rel", e.table);
                for step in e.path.iter_mut() {
                    step.1 = format!("{}_rel", step.1);
                }
            }
        }
    }
    let mut pu = PuSpec { entries, hash: rp.chance(0.3) };
    tags.push(format!("pu:{}{}{}", if row_privacy { "row" } else if direct_orders { "direct" } else if with_name_unit { "name" } else { "id" }, if pu.hash { "+hash" } else { "" }, if weight.is_some() { "+w" } else { "" }));
    tags.push(format!("depth:{}", depth));
    if alias_names {
        tags.push(format!("names:{}", if pu_by_relation_name { "pu_by_relation_name" } else { "pu_by_path" }));
    }

    // ---------------- parameters ----------------
    let mut rq = Rng::stream(seed, run, "params");
    let mut params = Params {
        epsilon: if rq.chance(0.2) { *rq.pick(&[0.05, 0.5, 1.0, 10.0]) } else { rq.log_uniform(0.05, 10.0) },
        delta: rq.log_uniform(1e-9, 1e-2),
        tau_share: if rq.chance(0.2) { 0.5 } else { rq.uniform(0.05, 0.95) },
        max_mult: *rq.pick(&[1.0, 2.0, 3.0, 5.0, 10.0, 20.0, 100.0]),
        max_mult_share: *rq.pick(&[0.01, 0.1, 0.5, 1.0]),
        // sometimes exactly the width of one of the small integer ranges of the pools (2, 5, 7):
        // "as many groups as Cu, plus one" is where off-by-one reasoning about the cap goes wrong
        cu: if rq.chance(0.2) { *rq.pick(&[2u64, 5, 7]) } else { 1 + rq.below(8) },
    };
    // extreme splits of the budget between thresholding and aggregates (own stream: the other
    // parameters of a run do not move): floors, caps and "at least this much" guards live there
    let mut rx = Rng::stream(seed, run, "params_extreme");
    if rx.chance(0.12) {
        params.tau_share = *rx.pick(&[0.0, 0.001, 0.01, 0.02, 0.04, 0.049, 0.96, 0.99, 0.999, 1.0]);
        tags.push("extreme_tau_share".into());
    }
    // budgets far from the usual order of magnitude
    if rx.chance(0.06) {
        params.epsilon = *rx.pick(&[0.001, 0.01, 30.0, 100.0]);
        tags.push("extreme_epsilon".into());
    }
    if rx.chance(0.06) {
        params.delta = *rx.pick(&[1e-20, 1e-17, 1e-12, 1e-10, 0.05, 0.2]);
        tags.push("extreme_delta".into());
    }
    // a cap far from any default a parameter conversion could silently fall back to
    if rx.chance(0.08) {
        params.cu = *rx.pick(&[12u64, 20, 50]);
        tags.push("large_cu".into());
    }

    // ---------------- instance ----------------
    let mut rd = Rng::stream(seed, run, "data");
    let mut rf = Rng::stream(seed, run, "faults");
    let benign = profile.benign_data;
    let fault = |rf: &mut Rng, p: f64| -> bool { !benign && rf.chance(p) };
    let n_users = if fault(&mut rf, 0.04) { faults.push("empty_users".into()); 0 } else { 1 + rd.below(25) as usize };
    let null_p = if rd.chance(0.5) { 0.0 } else { rd.uniform(0.05, 0.5) };
    let bound_p = if rd.chance(0.5) { 0.0 } else { 0.2 };
    if bound_p > 0.0 { faults.push("values_on_bounds".into()); }
    if null_p > 0.0 { faults.push("nulls".into()); }
    let dup_parent = fault(&mut rf, 0.08);
    let dup_unique = fault(&mut rf, 0.08);
    let orphans = fault(&mut rf, 0.1);
    let heavy = fault(&mut rf, 0.35);
    let spread = fault(&mut rf, 0.3) || profile.need_private_key && rf.chance(0.5);
    // users
    let mut user_ids: Vec<i64> = vec![];
    for i in 0..n_users {
        let id = if dup_parent && i > 0 && rd.chance(0.2) { user_ids[rd.usize(i)] } else { i as i64 + 1 };
        if dup_parent && user_ids.contains(&id) && !faults.contains(&"dup_parent_keys".to_string()) { faults.push("dup_parent_keys".into()); }
        user_ids.push(id);
        let mut row = vec![];
        for c in &users.cols {
            row.push(match c.name.as_str() {
                "id" => Cell::Int(id),
                "name" => {
                    // a few shared names: one unit = several user rows
                    // (benign instances honour a declared UNIQUE on the column)
                    let shared = dup_unique && rd.chance(0.3) || rd.chance(0.1);
                    if shared && !(benign && c.unique) { Cell::Text(format!("n{}", rd.below(3))) } else { Cell::Text(format!("u{}", i)) }
                }
                "w" => Cell::Float(*rd.pick(&[0.0, 0.5, 1.0, 2.0])),
                _ => gen_cell(&mut rd, c, null_p, bound_p),
            });
        }
        users.rows.push(row);
    }
    if dup_unique && with_name_unit { faults.push("dup_in_unique".into()); }
    // multiplicity the bound will assume for tables below users (estimate on declared size)
    // orders per user
    let base_orders = *rd.pick(&[0usize, 1, 2, 3]);
    // 1:1 optional extension table: at most one order per user, orders.user_id declared unique
    let one_to_one = depth >= 2 && !direct_orders && rf.chance(profile.p_one_to_one);
    if one_to_one { tags.push("one_to_one".into()); }
    let heavy_user = if heavy && !one_to_one && n_users > 0 { Some(rd.usize(n_users)) } else { None };
    let spread_user = if spread && !one_to_one && n_users > 0 { Some(rd.usize(n_users)) } else { None };
    if one_to_one {
        if let Some(ci) = orders.col_index("user_id") {
            orders.cols[ci].unique = true;
        }
    }
    let mut oid = 0i64;
    let mut order_ids: Vec<i64> = vec![];
    if depth >= 2 {
        for (ui, uid) in user_ids.iter().enumerate() {
            let mut k = if base_orders == 0 { rd.below(2) as usize } else { 1 + rd.below(base_orders as u64 * 2) as usize };
            if benign { k = k.min(params.max_mult as usize).max(if rd.chance(0.1) { 0 } else { 1 }).min(k); }
            if one_to_one { k = if rd.chance(0.6) { 1 } else { 0 }; }
            if Some(ui) == heavy_user {
                k = ((params.max_mult as usize).max(1) * (10 + rd.below(20) as usize)).min(160);
                faults.push("heavy_unit".into());
            }
            if Some(ui) == spread_user {
                k = k.max(params.cu as usize + 2 + rd.below(12) as usize);
                faults.push("spread_unit".into());
            }
            for j in 0..k {
                oid += 1;
                let this_id = if dup_unique && oid > 1 && rd.chance(0.1) { oid - 1 } else { oid };
                order_ids.push(this_id);
                let mut row = vec![];
                for c in &orders.cols {
                    row.push(match c.name.as_str() {
                        "id" => Cell::Int(this_id),
                        "user_id" => Cell::Int(*uid),
                        "w" => Cell::Float(*rd.pick(&[0.5, 1.0, 1.5, 2.0, 3.0, 4.0])),
                        "note" if Some(ui) == spread_user => Cell::Text(format!("s{}_{}", ui, j)),
                        "qty" if Some(ui) == spread_user => match &c.ty {
                            // spread the unit over as many distinct values as the type allows
                            ColType::IntRange { lo, hi } => Cell::Int(lo + (j as i64 % (hi - lo + 1))),
                            _ => gen_cell(&mut rd, c, 0.0, 0.0),
                        },
                        _ => gen_cell(&mut rd, c, null_p, bound_p),
                    });
                }
                orders.rows.push(row);
            }
        }
        if orphans {
            faults.push("orphans".into());
            for _ in 0..(1 + rd.below(4)) {
                oid += 1;
                order_ids.push(oid);
                let mut row = vec![];
                for c in &orders.cols {
                    row.push(match c.name.as_str() {
                        "id" => Cell::Int(oid),
                        "user_id" => Cell::Int(id_hi.min(n_users as i64 + 7)),
                        _ => gen_cell(&mut rd, c, null_p, bound_p),
                    });
                }
                orders.rows.push(row);
            }
        }
    }
    if depth >= 3 {
        let per = *rd.pick(&[1usize, 1, 2, 3]);
        for o in order_ids.clone() {
            let k = if benign { 1 } else { rd.below(per as u64 + 1) as usize };
            for _ in 0..k {
                if items.rows.len() >= 400 { break; }
                let mut row = vec![];
                for c in &items.cols {
                    row.push(match c.name.as_str() {
                        "order_id" => Cell::Int(o),
                        _ => gen_cell(&mut rd, c, null_p, bound_p),
                    });
                }
                items.rows.push(row);
            }
        }
    }
    // items reference orders through another key than `id` (own stream): the two hops of the
    // items path then name different referred columns, and orders.id holds other values
    let mut rrk = Rng::stream(seed, run, "ref_key");
    let ref_key = depth >= 3 && !direct_orders && rrk.chance(0.15);
    if ref_key {
        let idc = orders.col_index("id").unwrap();
        orders.cols.push(ColSpec { name: "ref".into(), ty: ColType::IntRange { lo: 0, hi: 200000 }, optional: false, unique: false });
        for r in orders.rows.iter_mut() {
            let id = match &r[idc] { Cell::Int(i) => *i, _ => 0 };
            r.push(Cell::Int(id + 50000));
        }
        let oc = items.col_index("order_id").unwrap();
        items.cols[oc].ty = ColType::IntRange { lo: 0, hi: 200000 };
        for r in items.rows.iter_mut() {
            if let Cell::Int(i) = &r[oc] {
                r[oc] = Cell::Int(*i + 50000);
            }
        }
        for e in pu.entries.iter_mut() {
            for hop in e.path.iter_mut() {
                if hop.0 == "order_id" && hop.2 == "id" {
                    hop.2 = "ref".into();
                }
            }
        }
        tags.push("ref_key".into());
    }
    // a denormalised copy of a key on the child table (own stream): items carries a `user_id` of its
    // own (who handled the line, say) next to the declared path items -> orders -> users; its
    // values are users too, but not the ones the path leads to
    let mut rdn = Rng::stream(seed, run, "denormalised_key");
    if depth >= 3 && !direct_orders && rdn.chance(0.12) && !users.rows.is_empty() {
        let idc = users.col_index("id").unwrap();
        let ids: Vec<i64> = users.rows.iter().filter_map(|r| match &r[idc] { Cell::Int(i) => Some(*i), _ => None }).collect();
        if !ids.is_empty() {
            items.cols.push(ColSpec { name: "user_id".into(), ty: ColType::IntRange { lo: 0, hi: id_hi }, optional: false, unique: false });
            for r in items.rows.iter_mut() {
                r.push(Cell::Int(*rdn.pick(&ids)));
            }
            tags.push("denormalised_key".into());
        }
    }
    // singleton keys (C04): make sure some private key values are held by exactly one unit
    if !benign && rf.chance(0.5) {
        faults.push("singleton_keys".into());
        if let Some(ci) = users.col_index("zip") {
            if let ColType::Text = users.cols[ci].ty {
                for (i, r) in users.rows.iter_mut().enumerate() {
                    if i % 3 == 0 { r[ci] = Cell::Text(format!("only{}", i)); }
                }
            }
        }
        if let Some(ci) = orders.col_index("note") {
            for (i, r) in orders.rows.iter_mut().enumerate() {
                if i % 5 == 0 && !r[ci].is_null() { r[ci] = Cell::Text(format!("solo{}", i)); }
            }
        }
    }
    if rf.chance(0.3) {
        faults.push("shuffled_rows".into());
        rd.shuffle(&mut users.rows);
        rd.shuffle(&mut orders.rows);
        rd.shuffle(&mut items.rows);
    }
    // declared sizes (what the compiler is told)
    let size_mode = rf.weighted(&[6, 2, 2]);
    let declare = |n: usize, rf: &mut Rng| -> i64 {
        match size_mode {
            0 => n.max(1) as i64,
            1 => (n as i64 / 4).max(1),
            _ => n as i64 * (2 + rf.below(50) as i64) + 10,
        }
    };
    users.size = declare(users.rows.len(), &mut rf);
    orders.size = declare(orders.rows.len(), &mut rf);
    items.size = declare(items.rows.len(), &mut rf);
    if size_mode == 1 && !benign { faults.push("size_underdeclared".into()); }
    if benign {
        // C09's hypothesis: no unit above the multiplicity the bound allows. Declare sizes as they
        // are and make the multiplicity parameters generous.
        users.size = users.rows.len().max(1) as i64;
        orders.size = orders.rows.len().max(1) as i64;
        items.size = items.rows.len().max(1) as i64;
    }

    let mut tables = vec![];
    if !direct_orders { tables.push(users.clone()); }
    if depth >= 2 { tables.push(orders.clone()); }
    if depth >= 3 { tables.push(items.clone()); }
    if direct_orders && depth < 2 { tables.push(orders.clone()); }
    if with_public { tables.push(regions.clone()); }

    // synthetic twins
    let mut synthetic = vec![];
    if rc.chance(profile.p_synthetic) {
        tags.push("synthetic".into());
        let mut rs = Rng::stream(seed, run, "synthetic");
        for t in tables.iter().filter(|t| protected.contains(&t.name)) {
            let mut s = t.clone();
            s.name = format!("syn_{}", t.name);
            s.qrlew_name = None;
            // independent rows of the same shape
            let n = 1 + rs.below(12) as usize;
            s.rows = (0..n)
                .map(|i| {
                    t.cols
                        .iter()
                        .map(|c| match c.name.as_str() {
                            "id" | "user_id" | "order_id" => Cell::Int(i as i64 % 5 + 1),
                            "name" => Cell::Text(format!("syn{}", i)),
                            "w" => Cell::Float(1.0),
                            _ => gen_cell(&mut rs, c, 0.0, 0.0),
                        })
                        .collect()
                })
                .collect();
            synthetic.push(s);
        }
        // partial declaration: one protected table has no synthetic counterpart (the compiler
        // must then refuse - or, today, panic - rather than read the real table)
        if synthetic.len() >= 2 && rs.chance(0.25) {
            let i = rs.usize(synthetic.len());
            synthetic.remove(i);
            tags.push("synthetic_partial".into());
        }
    }

    // ---------------- query ----------------
    let mut rg = Rng::stream(seed, run, "query");
    let prot_present: Vec<&TableSpec> = tables.iter().filter(|t| protected.contains(&t.name)).collect();
    // base table: bias to the deepest protected table
    let base_t: &TableSpec = {
        let n = prot_present.len();
        let w: Vec<u32> = (0..n).map(|i| 1 + 2 * i as u32).collect();
        prot_present[rg.weighted(&w)]
    };
    let alias_of = |t: &str| -> String { t[..1].to_string() };
    let mut from = vec![FromItem { table: base_t.name.clone(), alias: alias_of(&base_t.name), on: None, kind: String::new() }];
    let mut in_scope: Vec<&TableSpec> = vec![base_t];
    // join towards the parents along the path
    let has = |n: &str| tables.iter().find(|t| t.name == n);
    let mut join_tags = vec![];
    if base_t.name == "items" && has("orders").is_some() && rg.chance(0.5) {
        from.push(FromItem { table: "orders".into(), alias: "o".into(), on: Some("i.order_id = o.id".into()), kind: if rg.chance(0.85) { "JOIN".into() } else { "LEFT JOIN".into() } });
        in_scope.push(has("orders").unwrap());
        join_tags.push("items-orders");
    }
    if in_scope.iter().any(|t| t.name == "orders") && has("users").is_some() && rg.chance(0.5) {
        from.push(FromItem { table: "users".into(), alias: "u".into(), on: Some("o.user_id = u.id".into()), kind: if rg.chance(0.85) { "JOIN".into() } else { "LEFT JOIN".into() } });
        in_scope.push(has("users").unwrap());
        join_tags.push("orders-users");
    }
    // ... or towards the children (parent rows without a child are preserved by an outer join)
    if from.len() == 1 && base_t.name == "users" && has("orders").is_some() && rg.chance(0.3) {
        from.push(FromItem { table: "orders".into(), alias: "o".into(), on: Some("o.user_id = u.id".into()), kind: if rg.chance(0.5) { "JOIN".into() } else { "LEFT JOIN".into() } });
        in_scope.push(has("orders").unwrap());
        join_tags.push("users-orders");
    }
    if from.len() == 1 && base_t.name == "orders" && has("items").is_some() && rg.chance(0.3) {
        from.push(FromItem { table: "items".into(), alias: "i".into(), on: Some("i.order_id = o.id".into()), kind: if rg.chance(0.5) { "JOIN".into() } else { "LEFT JOIN".into() } });
        in_scope.push(has("items").unwrap());
        join_tags.push("orders-items");
    }
    if with_public && in_scope.iter().any(|t| t.name == "users" && t.col_index("city").is_some()) && rg.chance(0.6) {
        // RIGHT JOIN: public rows without a protected partner are preserved (NULL unit)
        from.push(FromItem { table: "regions".into(), alias: "r".into(), on: Some("u.city = r.city".into()), kind: if rg.chance(0.75) { "JOIN".into() } else { "RIGHT JOIN".into() } });
        in_scope.push(has("regions").unwrap());
        join_tags.push("users-regions");
    }
    // a CROSS JOIN of two protected tables instead of the join along the path (own stream): the
    // tracked join must still pair rows of one unit only
    let mut rx_ = Rng::stream(seed, run, "cross_join");
    if rx_.chance(profile.p_cross) {
        if let Some(f) = from.iter_mut().skip(1).find(|f| protected.contains(&f.table)) {
            f.kind = "CROSS JOIN".into();
            f.on = None;
            join_tags.push("cross");
        }
    }
    // RIGHT / FULL joins between two protected tables (own stream; profiles whose oracles do not
    // depend on the harness's own reading of key nullability)
    if rx_.chance(profile.p_outer_kinds) {
        if let Some(f) = from.iter_mut().skip(1).find(|f| protected.contains(&f.table) && f.kind != "CROSS JOIN") {
            f.kind = if rx_.chance(0.5) { "RIGHT JOIN".into() } else { "FULL JOIN".into() };
            join_tags.push("outer_kind");
        }
    }
    // the key equality of a join along the path under an OR (own stream): not a top-level conjunct
    let mut ror = Rng::stream(seed, run, "on_or");
    if ror.chance(profile.p_on_or) {
        if let Some(f) = from.iter_mut().skip(1).find(|f| protected.contains(&f.table) && f.on.is_some() && f.kind != "CROSS JOIN") {
            let on = f.on.clone().unwrap();
            let other = if f.alias == "u" { "u.id > 3" } else if f.alias == "o" { "o.id > 3" } else { "i.order_id > 3" };
            f.on = Some(format!("({} OR {})", on, other));
            join_tags.push("on_or");
        }
    }
    if ref_key {
        for f in from.iter_mut() {
            if let Some(on) = f.on.as_mut() {
                *on = on.replace("i.order_id = o.id", "i.order_id = o.ref");
            }
        }
    }
    tags.push(format!("from:{}{}", base_t.name, if join_tags.is_empty() { String::new() } else { format!("+{}", join_tags.join("+")) }));

    // columns in scope as (qualified name, spec)
    let mut cols: Vec<(String, ColSpec)> = vec![];
    for t in &in_scope {
        for c in &t.cols {
            cols.push((format!("{}.{}", alias_of(&t.name), c.name), c.clone()));
        }
    }
    let is_id = |q: &str| q.ends_with(".id") || q.ends_with("_id") || q.ends_with(".w") || q.ends_with(".name") || q.ends_with(".ref");
    let numeric: Vec<&(String, ColSpec)> = cols.iter().filter(|(q, c)| c.ty.is_numeric() && !is_id(q) && q != "r.factor" || q == "r.factor").collect();
    let keyable: Vec<&(String, ColSpec)> = cols.iter().filter(|(q, _)| !is_id(q) && q != "r.factor" && !q.starts_with("r.city")).collect();

    // WHERE
    let mut where_: Vec<String> = vec![];
    let mut in_list_cols: Vec<(String, Vec<Cell>)> = vec![];
    let nw = rg.weighted(&[5, 4, 1]);
    for _ in 0..nw {
        let (q, c) = &cols[rg.usize(cols.len())];
        if is_id(q) { continue; }
        match &c.ty {
            ColType::IntRange { lo, hi } => {
                if rg.chance(0.25) && hi - lo >= 3 {
                    let vals: Vec<i64> = (0..3).map(|k| lo + (hi - lo) * k / 3).collect();
                    where_.push(format!("{} IN ({}, {}, {})", q, vals[0], vals[1], vals[2]));
                    in_list_cols.push((q.clone(), vals.iter().map(|v| Cell::Int(*v)).collect()));
                } else {
                    let v = rg.range(*lo, *hi);
                    where_.push(format!("{} {} {}", q, rg.pick(&[">", "<", ">=", "<="]), v));
                }
            }
            ColType::FloatRange { lo, hi } => {
                let v = lo + (hi - lo) * (rg.below(9) as f64) / 8.0;
                where_.push(format!("{} {} {:?}", q, rg.pick(&[">", "<"]), v));
            }
            ColType::IntValues(v) => where_.push(format!("{} <> {}", q, rg.pick(v))),
            ColType::FloatValues(v) => where_.push(format!("{} > {:?}", q, v[0])),
            ColType::TextValues(v) => where_.push(format!("{} {} '{}'", q, rg.pick(&["=", "<>"]), rg.pick(v))),
            ColType::Text => where_.push(format!("{} <> '{}'", q, TEXT_POOL[rg.usize(4)])),
            ColType::Bool => where_.push(format!("{}{}", if rg.chance(0.5) { "" } else { "NOT " }, q)),
        }
        if c.optional && rg.chance(0.3) {
            where_.push(format!("{} IS NOT NULL", q));
        }
    }

    // other spellings of the same integer comparisons (own stream): NOT (...), BETWEEN
    let mut rwf = Rng::stream(seed, run, "where_forms");
    for w in where_.iter_mut() {
        let parts: Vec<&str> = w.split(' ').collect();
        // (floats: NOT (...) only)
        if parts.len() == 3 && parts[2].parse::<i64>().is_err() && parts[2].parse::<f64>().is_ok() {
            if let Some((_, c)) = cols.iter().find(|(q, _)| q == parts[0]) {
                if matches!(c.ty, ColType::FloatRange { .. }) {
                    let neg = match parts[1] { ">" => "<=", "<" => ">=", _ => "" };
                    if !neg.is_empty() && rwf.chance(0.25) {
                        *w = format!("NOT ({} {} {})", parts[0], neg, parts[2]);
                    }
                }
            }
            continue;
        }
        if parts.len() == 3 && parts[2].parse::<i64>().is_ok() {
            if let Some((_, c)) = cols.iter().find(|(q, _)| q == parts[0]) {
                if let ColType::IntRange { lo, hi } = &c.ty {
                    let (q, v) = (parts[0].to_string(), parts[2].to_string());
                    let neg = match parts[1] { ">" => "<=", "<" => ">=", ">=" => "<", "<=" => ">", _ => "" };
                    if neg.is_empty() { continue; }
                    match rwf.weighted(&[6, 2, 2]) {
                        1 => *w = format!("NOT ({} {} {})", q, neg, v),
                        2 if parts[1] == ">=" => *w = format!("{} BETWEEN {} AND {}", q, v, hi),
                        2 if parts[1] == "<=" => *w = format!("{} BETWEEN {} AND {}", q, lo, v),
                        2 if parts[1] == ">" => *w = format!("{} NOT BETWEEN {} AND {}", q, lo, v),
                        _ => {}
                    }
                }
            }
        }
    }

    // aggregation over an aggregation, grouped by the inner aggregate (a private-valued key)
    if rg.chance(profile.p_nested_group) && base_t.name == "orders" {
        let a = alias_of(&base_t.name);
        let inner_key = ["note", "qty", "status"].iter().find(|k| base_t.col_index(k).is_some()).map(|k| k.to_string());
        if let Some(ik) = inner_key {
            // give one unit inner groups of sizes 1, 2, 3, ... so that it holds many outer keys
            let mut tables2 = tables.clone();
            let base_name = base_t.name.clone();
            let ti = tables2.iter().position(|t| t.name == "orders").unwrap();
            let (uc, kc) = (tables2[ti].col_index("user_id").unwrap(), tables2[ti].col_index(&ik).unwrap());
            let mut count: std::collections::BTreeMap<String, usize> = Default::default();
            for r in &tables2[ti].rows {
                *count.entry(r[uc].key()).or_default() += 1;
            }
            if let Some((heavy, n)) = count.iter().max_by_key(|(k, n)| (**n, k.to_string())).map(|(k, n)| (k.clone(), *n)) {
                if n >= 3 {
                    let is_text = matches!(tables2[ti].cols[kc].ty, ColType::Text | ColType::TextValues(_));
                    let (mut g, mut left, mut size) = (0usize, 1usize, 1usize);
                    for r in tables2[ti].rows.iter_mut().filter(|r| r[uc].key() == heavy) {
                        r[kc] = if is_text { Cell::Text(format!("g{}", g)) } else { Cell::Int(g as i64 % 30) };
                        left -= 1;
                        if left == 0 {
                            g += 1;
                            size += 1;
                            left = size;
                        }
                    }
                    faults.push("unit_with_inner_groups_of_many_sizes".into());
                }
            }
            let own_where: Vec<String> = where_.iter().filter(|w| w.contains(&format!("{}.", a)) && !from.iter().skip(1).any(|f| w.contains(&format!("{}.", f.alias)))).cloned().collect();
            let wsql = if own_where.is_empty() { String::new() } else { format!(" WHERE {}", own_where.join(" AND ")) };
            let outer_agg = *rg.pick(&["count(*)", "sum(t.c)"]);
            let sql = format!(
                "SELECT t.c AS k0, {} AS a0 FROM (SELECT count(*) AS c FROM {} AS {}{} GROUP BY {}.{}) AS t GROUP BY t.c",
                outer_agg, base_name, a, wsql, a, ik
            );
            let holders = format!(
                "SELECT DISTINCT x.c AS k0, x.unit AS __unit FROM (SELECT __w.unit AS unit, count(*) AS c FROM {} AS {} JOIN \"__own_{}\" AS __w ON __w.rid = {}.rowid{} GROUP BY __w.unit, {}.{}) AS x",
                base_t.name, a, base_name, a, wsql, a, ik
            );
            tags.push("keys:priv".into());
            tags.push("aggs:nested_group".into());
            tags.push("nested_group".into());
            let query = QuerySpec {
                from: vec![FromItem { table: base_name.clone(), alias: a.clone(), on: None, kind: String::new() }],
                where_: vec![],
                keys: vec![KeySpec { expr: "t.c".into(), alias: "k0".into(), public_set: None, nullable: false, ambiguous: false, group_expr: None, select_agg: None }],
                aggs: vec![AggSpec { f: AggFn::CountStar, distinct: false, arg: String::new(), alias: "a0".into(), scale: 1.0 }],
                having: None,
                outer: None,
                plain: None,
                cte: None,
                raw_sql: Some(sql),
                holders_override: Some(holders),
                inner_where: vec![],
                outer_group_by: false,
                extra_select: vec![],
                shadow_cte: None,
                hide_keys: false,
            };
            let base = Some((a, base_name.clone()));
            return finish(seed, run, tables2, synthetic, pu, params, query, base, tags, faults, &protected);
        }
    }

    // two DP aggregations combined: join of two CTE aggregations on a key, or UNION ALL
    if rg.chance(profile.p_multi_dp) && !numeric.is_empty() {
        let a = alias_of(&base_t.name);
        let own: Vec<&(String, ColSpec)> = numeric.iter().cloned().filter(|(q, _)| q.starts_with(&format!("{}.", a))).collect();
        let own_keys: Vec<&(String, ColSpec)> = keyable.iter().cloned().filter(|(q, c)| q.starts_with(&format!("{}.", a)) && public_set_of(&c.ty).is_some() && !c.optional && c.ty != ColType::Bool).collect();
        if !own.is_empty() {
            let (v1, _) = own[rg.usize(own.len())];
            let (v2, _) = own[rg.usize(own.len())];
            let f1 = *rg.pick(&["sum", "avg", "count"]);
            let f2 = *rg.pick(&["sum", "count", "avg"]);
            let _ = &own_keys;
            tags.push("keys:none".into());
            // union of two DP sub-queries that spend the same budget on the same number of mechanisms
            let sql = format!(
                "WITH a AS (SELECT {f1}({v1}) AS v FROM {t} AS {al}), b AS (SELECT {f2}({v2}) AS v FROM {t} AS {al}) SELECT * FROM a {op} SELECT * FROM b",
                f1 = if rg.chance(0.5) { "count" } else { f1 }, v1 = v1, f2 = if rg.chance(0.5) { "count" } else { f2 }, v2 = v2, t = base_t.name, al = a,
                op = rg.pick(&["UNION", "UNION ALL"])
            );
            // ... or, grouped by one private key each (own stream): two key releases in one compilation
            let mut rmk = Rng::stream(seed, run, "multi_dp_keys");
            let priv_keys: Vec<&(String, ColSpec)> = keyable.iter().cloned().filter(|(q, c)| q.starts_with(&format!("{}.", a)) && public_set_of(&c.ty).is_none() && !c.optional).collect();
            let sql = if rmk.chance(0.5) && !priv_keys.is_empty() {
                let (k, _) = priv_keys[rmk.usize(priv_keys.len())];
                tags.retain(|t| t != "keys:none");
                tags.push("keys:priv".into());
                tags.push("multi_dp_keys".into());
                format!(
                    "WITH a AS (SELECT {k} AS k, {f1}({v1}) AS v FROM {t} AS {al} GROUP BY {k}), b AS (SELECT {k} AS k, {f2}({v2}) AS v FROM {t} AS {al} GROUP BY {k}) SELECT * FROM a {op} SELECT * FROM b",
                    k = k, f1 = if rmk.chance(0.5) { "count" } else { f1 }, v1 = v1, f2 = if rmk.chance(0.5) { "count" } else { f2 }, v2 = v2, t = base_t.name, al = a,
                    op = rmk.pick(&["UNION", "UNION ALL"])
                )
            } else {
                sql
            };
            tags.push("multi_dp".into());
            let query = QuerySpec { from: vec![], where_: vec![], keys: vec![], aggs: vec![], having: None, outer: None, plain: None, cte: None, raw_sql: None, holders_override: None, inner_where: vec![], outer_group_by: false, extra_select: vec![], shadow_cte: None, hide_keys: false };
            let base = Some((a, base_t.name.clone()));
            let mut g = finish(seed, run, tables, synthetic, pu, params, query, base, tags, faults, &protected);
            g.scenario.sql = sql;
            g.scenario.query = None;
            return g;
        }
    }

    // a Reduce made of grouping keys only (own stream): `SELECT DISTINCT k FROM t` / `SELECT k FROM t
    // GROUP BY k` - no aggregate pays for anything, the key set is all the query publishes
    let mut rko = Rng::stream(seed, run, "keys_only");
    if rko.chance(profile.p_keys_only) && !keyable.is_empty() {
        let a = alias_of(&base_t.name);
        let own_keys: Vec<&(String, ColSpec)> = keyable.iter().cloned().filter(|(q, c)| q.starts_with(&format!("{}.", a)) && !c.optional && c.ty != ColType::Bool).collect();
        let pub_keys: Vec<&(String, ColSpec)> = own_keys.iter().cloned().filter(|(_, c)| public_set_of(&c.ty).is_some()).collect();
        let pool = if rko.chance(0.75) && !pub_keys.is_empty() { pub_keys } else { own_keys };
        if !pool.is_empty() {
            let (kq, kc) = pool[rko.usize(pool.len())];
            let other_aliases: Vec<String> = from.iter().skip(1).map(|f| format!("{}.", f.alias)).collect();
            let own_where: Vec<String> = where_.iter().filter(|w| !other_aliases.iter().any(|o| w.contains(o.as_str()))).cloned().collect();
            let wsql = if own_where.is_empty() || rko.chance(0.5) { String::new() } else { format!(" WHERE {}", own_where.join(" AND ")) };
            let sql = match rko.below(3) {
                0 => format!("SELECT DISTINCT {} AS k FROM {} AS {}{}", kq, base_t.name, a, wsql),
                1 => format!("SELECT {} AS k FROM {} AS {}{} GROUP BY {}", kq, base_t.name, a, wsql, kq),
                _ => format!("SELECT s.k AS k FROM (SELECT DISTINCT {} AS k FROM {} AS {}{}) AS s", kq, base_t.name, a, wsql),
            };
            tags.push(format!("keys:{}", if public_set_of(&kc.ty).is_some() { "pub" } else { "priv" }));
            tags.push("keys_only".into());
            let query = QuerySpec { from: vec![], where_: vec![], keys: vec![], aggs: vec![], having: None, outer: None, plain: None, cte: None, raw_sql: None, holders_override: None, inner_where: vec![], outer_group_by: false, extra_select: vec![], shadow_cte: None, hide_keys: false };
            let base = Some((a, base_t.name.clone()));
            let mut g = finish(seed, run, tables, synthetic, pu, params, query, base, tags, faults, &protected);
            g.scenario.sql = sql;
            g.scenario.query = None;
            return g;
        }
    }

    // sub-query used twice: released once, re-aggregated once (CTE + UNION ALL)
    if rg.chance(profile.p_shared_cte) && !numeric.is_empty() && !keyable.is_empty() {
        let own: Vec<&(String, ColSpec)> = numeric.iter().cloned().filter(|(q, _)| q.starts_with(&format!("{}.", alias_of(&base_t.name)))).collect();
        let own_keys: Vec<&(String, ColSpec)> = keyable.iter().cloned().filter(|(q, _)| q.starts_with(&format!("{}.", alias_of(&base_t.name)))).collect();
        if !own.is_empty() && !own_keys.is_empty() {
            let (vq, _) = own[rg.usize(own.len())];
            let (kq, kc) = own_keys[rg.usize(own_keys.len())];
            let a = alias_of(&base_t.name);
            // only the conjuncts that mention the base table alone
            let other_aliases: Vec<String> = from.iter().skip(1).map(|f| format!("{}.", f.alias)).collect();
            let own_where: Vec<String> = where_.iter().filter(|w| !other_aliases.iter().any(|o| w.contains(o.as_str()))).cloned().collect();
            let inner = format!(
                "SELECT {} AS k, {}({}) AS v FROM {} AS {}{} GROUP BY {}",
                kq,
                rg.pick(&["sum", "count", "avg"]),
                vq,
                base_t.name,
                a,
                if own_where.is_empty() { String::new() } else { format!(" WHERE {}", own_where.join(" AND ")) },
                kq
            );
            let order = rg.chance(0.5);
            let (first, second) = ("SELECT v AS v FROM t".to_string(), "SELECT sum(v) / 50 AS v FROM t".to_string());
            let sql = if order { format!("WITH t AS ({}) {} UNION ALL {}", inner, first, second) } else { format!("WITH t AS ({}) {} UNION ALL {}", inner, second, first) };
            // ... or published with its key on one side, filtered and aggregated again under an
            // expression on the other (own stream): two derivations of one shared reduce
            let mut rsf = Rng::stream(seed, run, "shared_cte_filtered");
            let sql = if rsf.chance(0.5) {
                let zero = if matches!(kc.ty, ColType::Text | ColType::TextValues(_)) { "'zz'" } else if matches!(kc.ty, ColType::Bool) { "FALSE" } else { "0" };
                let thr = rsf.below(4) as f64 * 25.0 + 0.5;
                let (keep, again) = ("SELECT k AS k, v AS v FROM t".to_string(), format!("SELECT {} AS k, 1 * sum(v) AS v FROM big", zero));
                tags.push("shared_cte_filtered".into());
                if rsf.chance(0.7) {
                    format!("WITH t AS ({}), big AS (SELECT k, v FROM t WHERE v > {:?}) {} UNION ALL {}", inner, thr, keep, again)
                } else {
                    format!("WITH t AS ({}), big AS (SELECT k, v FROM t WHERE v > {:?}) {} UNION ALL {}", inner, thr, again, keep)
                }
            } else {
                sql
            };
            tags.push(format!("keys:{}", if public_set_of(&kc.ty).is_some() { "pub" } else { "priv" }));
            tags.push("shared_cte".into());
            let query = QuerySpec { from: vec![], where_: vec![], keys: vec![], aggs: vec![], having: None, outer: None, plain: None, cte: None, raw_sql: None, holders_override: None, inner_where: vec![], outer_group_by: false, extra_select: vec![], shadow_cte: None, hide_keys: false };
            let base = Some((a, base_t.name.clone()));
            let mut g = finish(seed, run, tables, synthetic, pu, params, query, base, tags, faults, &protected);
            g.scenario.sql = sql;
            g.scenario.query = None;
            return g;
        }
    }

    // an aggregation over an inner aggregation grouped by a column that is NOT the privacy unit but
    // is named like the field the unit path ends in (orders.id vs users.id), with values shared
    // between units (own stream)
    let mut rni = Rng::stream(seed, run, "nested_by_id");
    if rni.chance(profile.p_nested_by_id) && has("users").is_some() && has("orders").is_some() && !direct_orders {
        let orders_t = has("orders").unwrap();
        if let Some(vc) = orders_t.cols.iter().find(|c| c.ty.is_numeric() && !c.name.ends_with("id") && c.name != "w" && c.name != "ref").map(|c| c.name.clone()) {
            let mut tables2: Vec<TableSpec> = tables.iter().filter(|t| t.name != "items").cloned().collect();
            let ti = tables2.iter().position(|t| t.name == "orders").unwrap();
            let ic = tables2[ti].col_index("id").unwrap();
            tables2[ti].cols[ic].unique = false;
            let k = 2 + rni.below(4) as i64;
            for (j, r) in tables2[ti].rows.iter_mut().enumerate() {
                r[ic] = Cell::Int(1 + (j as i64 % k));
            }
            let mut pu2 = pu.clone();
            pu2.entries.retain(|e| !e.table.starts_with("items"));
            let f = *rni.pick(&["avg", "sum"]);
            let sql = format!("SELECT sum(t.a) AS a0 FROM (SELECT o.id AS id, {}(o.{}) AS a FROM orders AS o GROUP BY o.id) AS t", f, vc);
            tags.push("nested_by_id".into());
            let base = Some(("o".to_string(), "orders".to_string()));
            let query = QuerySpec { from: vec![], where_: vec![], keys: vec![], aggs: vec![], having: None, outer: None, plain: None, cte: None, raw_sql: None, holders_override: None, inner_where: vec![], outer_group_by: false, extra_select: vec![], shadow_cte: None, hide_keys: false };
            let protected2: Vec<String> = protected.iter().filter(|t| *t != "items").cloned().collect();
            let synthetic2: Vec<TableSpec> = synthetic.iter().filter(|t| !t.name.contains("items")).cloned().collect();
            let mut g = finish(seed, run, tables2, synthetic2, pu2, params, query, base, tags, faults, &protected2);
            g.scenario.sql = sql;
            g.scenario.query = None;
            return g;
        }
    }

    // a row-level join of two filtered sub-queries (own stream): no DP route exists for it, it can
    // only be refused or answered from synthetic data
    let mut rjs = Rng::stream(seed, run, "join_of_subqueries");
    if rjs.chance(profile.p_join_of_subqueries) && has("users").is_some() && has("orders").is_some() && !direct_orders {
        let uc = has("users").unwrap().cols.iter().find(|c| c.name != "id" && c.name != "name" && c.name != "w").map(|c| c.name.clone());
        let oc = has("orders").unwrap().cols.iter().find(|c| !c.name.ends_with("id") && c.name != "w" && c.name != "ref").map(|c| c.name.clone());
        if let (Some(uc), Some(oc)) = (uc, oc) {
            tags.push("join_of_subqueries".into());
            let sql = format!(
                "SELECT a.id AS p0, a.{uc} AS p1, b.{oc} AS p2 FROM (SELECT id, {uc} FROM users WHERE id > 0) AS a JOIN (SELECT user_id, {oc} FROM orders WHERE user_id > 0) AS b ON a.id = b.user_id",
                uc = uc,
                oc = oc
            );
            let base = Some(("u".to_string(), "users".to_string()));
            let query = QuerySpec { from: vec![], where_: vec![], keys: vec![], aggs: vec![], having: None, outer: None, plain: None, cte: None, raw_sql: None, holders_override: None, inner_where: vec![], outer_group_by: false, extra_select: vec![], shadow_cte: None, hide_keys: false };
            let mut g = finish(seed, run, tables, synthetic, pu, params, query, base, tags, faults, &protected);
            g.scenario.sql = sql;
            g.scenario.query = None;
            return g;
        }
    }

    // plain (non aggregating) query
    if rg.chance(profile.p_plain) {
        let k = 1 + rg.below(3) as usize;
        let mut plain = vec![];
        for j in 0..k {
            let (q, _) = &cols[rg.usize(cols.len())];
            plain.push((q.clone(), format!("p{}", j)));
        }
        tags.push("plain".into());
        let set_op = if from.len() == 1 && rg.chance(0.3) { Some(*rg.pick(&["UNION", "UNION ALL", "EXCEPT", "INTERSECT"])) } else { None };
        let base = Some((alias_of(&base_t.name), base_t.name.clone()));
        let query = QuerySpec { from, where_, keys: vec![], aggs: vec![], having: None, outer: None, plain: Some(plain), cte: None, raw_sql: None, holders_override: None, inner_where: vec![], outer_group_by: false, extra_select: vec![], shadow_cte: None, hide_keys: false };
        if let Some(op) = set_op {
            // a set operation of the projection with itself (both branches read protected rows)
            tags.push("set_operation".into());
            let one = query.sql();
            let mut g = finish(seed, run, tables, synthetic, pu, params, query, base, tags, faults, &protected);
            g.scenario.sql = format!("{} {} {}", one, op, one);
            g.scenario.query = None;
            return g;
        }
        return finish(seed, run, tables, synthetic, pu, params, query, base, tags, faults, &protected);
    }

    // keys
    let mut keys: Vec<KeySpec> = vec![];
    if rg.chance(profile.p_grouped) && !keyable.is_empty() {
        let nk = 1 + rg.weighted(&[7, 3]);
        let mut tries = 0;
        while keys.len() < nk && tries < 20 {
            tries += 1;
            let (q, c) = keyable[rg.usize(keyable.len())];
            if keys.iter().any(|k| &k.expr == q) { continue; }
            let mut public = public_set_of(&c.ty);
            // nullable columns and Bool (typed as the interval [false, true], not as two values)
            let mut ambiguous = c.optional || c.ty == ColType::Bool;
            if let Some((_, vals)) = in_list_cols.iter().find(|(qq, _)| qq == q) {
                if public.is_none() {
                    ambiguous = true;
                }
                public = Some(vals.clone());
            }
            if profile.public_keys_only && public.is_none() {
                // computed public key over a private column
                if c.ty.is_numeric() && rg.chance(0.5) {
                    let (lo, hi) = match &c.ty { ColType::IntRange { lo, hi } => (*lo as f64, *hi as f64), ColType::FloatRange { lo, hi } => (*lo, *hi), _ => (0.0, 1.0) };
                    // threshold in the middle of the declared range, or exactly on one of its bounds
                    let mid = match rg.weighted(&[6, 2, 2]) { 0 => lo + (hi - lo) / 2.0, 1 => lo, _ => hi };
                    let expr = format!("CASE WHEN {} {} {:?} THEN 'hi' ELSE 'lo' END", q, rg.pick(&[">", ">", "<", ">=", "<="]), mid);
                    keys.push(KeySpec { expr, alias: format!("k{}", keys.len()), public_set: Some(vec![Cell::Text("hi".into()), Cell::Text("lo".into())]), nullable: false, ambiguous: true, group_expr: None, select_agg: None });
                }
                continue;
            }
            keys.push(KeySpec { expr: q.clone(), alias: format!("k{}", keys.len()), public_set: public, nullable: c.optional, ambiguous, group_expr: None, select_agg: None });
        }
        // sometimes a single private key over a small, non-nullable integer range
        if profile.need_private_key && rg.chance(0.25) {
            if let Some((q, _)) = keyable.iter().find(|(q, c)| matches!(c.ty, ColType::IntRange { lo, hi } if hi - lo <= 8 && hi > lo) && !c.optional && !where_.iter().any(|w| w.contains(q.as_str()))) {
                keys.clear();
                keys.push(KeySpec { expr: q.clone(), alias: "k0".into(), public_set: None, nullable: false, ambiguous: false, group_expr: None, select_agg: None });
            }
        }
        if profile.need_private_key && !keys.iter().any(|k| k.public_set.is_none()) {
            if let Some((q, _)) = keyable.iter().find(|(q, c)| public_set_of(&c.ty).is_none() && !in_list_cols.iter().any(|(qq, _)| qq == q)) {
                if keys.len() >= 2 { keys.pop(); }
                keys.push(KeySpec { expr: q.clone(), alias: format!("k{}", keys.len()), public_set: None, nullable: false, ambiguous: false, group_expr: None, select_agg: None });
            }
        }
    }
    // WHERE conjuncts over functions and combinations of columns (own stream): the filter typing
    // has a rule per function, and what it concludes about a column travels to keys and bounds
    let mut rwn = Rng::stream(seed, run, "where_fn");
    // conjuncts that leave every value of every column possible, whatever they mention
    let mut non_narrowing: Vec<String> = vec![];
    if rwn.chance(profile.p_where_fn) {
        let rng_of = |c: &ColSpec| -> Option<(f64, f64, bool)> {
            match &c.ty {
                ColType::IntRange { lo, hi } => Some((*lo as f64, *hi as f64, true)),
                ColType::FloatRange { lo, hi } => Some((*lo, *hi, false)),
                ColType::IntValues(v) => Some((*v.iter().min().unwrap() as f64, *v.iter().max().unwrap() as f64, true)),
                _ => None,
            }
        };
        let lit = |x: f64, is_int: bool| if is_int { format!("{}", x.floor() as i64) } else { format!("{:?}", (x * 8.0).round() / 8.0 + 0.0625) };
        let nums: Vec<&(String, ColSpec)> = numeric.iter().filter(|(q, c)| q != "r.factor" && rng_of(c).map_or(false, |r| r.0.abs().max(r.1.abs()) <= 1.0e6)).cloned().collect();
        let texts: Vec<&(String, ColSpec)> = cols.iter().filter(|(q, c)| !is_id(q) && matches!(c.ty, ColType::TextValues(_))).collect();
        let free_texts: Vec<&(String, ColSpec)> = cols.iter().filter(|(q, c)| !is_id(q) && matches!(c.ty, ColType::Text)).collect();
        let bools: Vec<&(String, ColSpec)> = cols.iter().filter(|(q, c)| !is_id(q) && matches!(c.ty, ColType::Bool)).collect();
        let mut used = vec![];
        for _ in 0..(1 + rwn.below(2)) {
            let kind = rwn.below(14);
            if kind >= 10 {
                // a side that says nothing about any column (LIKE, IS NULL, a boolean column, a
                // list on another column) next to one that does: under OR the narrowing side must
                // not survive alone, under NOT (.. AND ..) the negated side must not either
                let silent: Vec<String> = {
                    let mut v = vec![];
                    for (qt, _) in texts.iter().chain(free_texts.iter()) { v.push(format!("{} LIKE 'k%'", qt)); }
                    for (qb, _) in bools.iter() { v.push(qb.to_string()); }
                    for (qn, cn) in nums.iter() { if cn.optional { v.push(format!("{} IS NULL", qn)); } }
                    v
                };
                if silent.is_empty() { continue; }
                let quiet = silent[rwn.usize(silent.len())].clone();
                // the narrowing side: a list on a free-text column, a value-set column or a number
                let mut loud: Vec<(String, String)> = vec![];
                for (qt, _) in free_texts.iter() { loud.push((qt.to_string(), format!("{} IN ('{}', '{}')", qt, TEXT_POOL[rwn.usize(4)], TEXT_POOL[4 + rwn.usize(4)]))); }
                for (qt, ct) in texts.iter() { if let ColType::TextValues(vs) = &ct.ty { loud.push((qt.to_string(), format!("{} IN ('{}')", qt, rwn.pick(vs)))); } }
                for (qn, cn) in nums.iter() { let r = rng_of(cn).unwrap(); loud.push((qn.to_string(), format!("{} > {}", qn, lit((r.0 + r.1) / 2.0, r.2)))); }
                loud.retain(|(q, _)| !quiet.starts_with(q.as_str()));
                if loud.is_empty() { continue; }
                let (_, l) = loud[rwn.usize(loud.len())].clone();
                let w = if kind <= 11 { format!("({} OR {})", l, quiet) } else { format!("NOT ({} AND {})", l, quiet) };
                non_narrowing.push(w.clone());
                where_.push(w);
                used.push(if kind <= 11 { "or_silent_side" } else { "not_and_silent_side" });
                continue;
            }
            if kind >= 8 {
                if texts.is_empty() { continue; }
                let (qt, ct) = texts[rwn.usize(texts.len())];
                let ColType::TextValues(vs) = &ct.ty else { continue };
                let v = rwn.pick(vs).clone();
                match rwn.below(4) {
                    0 => { where_.push(format!("upper({}) = '{}'", qt, v.to_uppercase())); used.push("upper_eq"); }
                    1 => { where_.push(format!("{} LIKE '{}%'", qt, v.chars().next().unwrap_or('x'))); used.push("like"); }
                    2 => { let w = rwn.pick(vs).clone(); where_.push(format!("{} IN ('{}', '{}')", qt, v, w)); used.push("text_in"); }
                    _ => { where_.push(format!("NOT ({} = '{}')", qt, v)); used.push("not_text_eq"); }
                }
                continue;
            }
            if nums.is_empty() { continue; }
            let (q, c) = nums[rwn.usize(nums.len())];
            let (lo, hi, is_int) = rng_of(c).unwrap();
            let mid = (lo + hi) / 2.0;
            let other = nums.iter().find(|(q2, _)| q2 != q);
            match (kind, other) {
                (0, _) => { where_.push(format!("abs({}) >= {}", q, lit((lo.abs().min(hi.abs()) + lo.abs().max(hi.abs())) / 2.0, is_int))); used.push("abs_ge"); }
                (1, Some((q2, c2))) => { let r2 = rng_of(c2).unwrap(); where_.push(format!("{} + {} > {}", q, q2, lit(mid + (r2.0 + r2.1) / 2.0, is_int && r2.2))); used.push("sum_gt"); }
                (2, _) => { where_.push(format!("{} * 2 < {}", q, lit(2.0 * mid + 1.0, is_int))); used.push("double_lt"); }
                (3, Some((q2, c2))) => { let r2 = rng_of(c2).unwrap(); where_.push(format!("({} > {} OR {} < {})", q, lit(mid, is_int), q2, lit((r2.0 + r2.1) / 2.0, r2.2))); used.push("or"); }
                (4, _) if c.optional => { where_.push(format!("({} IS NULL OR {} > {})", q, q, lit(mid, is_int))); used.push("null_or"); }
                (4, Some((q2, c2))) => { let r2 = rng_of(c2).unwrap(); where_.push(format!("NOT ({} < {} AND {} > {})", q, lit(mid, is_int), q2, lit((r2.0 + r2.1) / 2.0, r2.2))); used.push("not_and"); }
                (5, _) if c.optional => { where_.push(format!("coalesce({}, {}) >= {}", q, lit(lo, is_int), lit(mid, is_int))); used.push("coalesce_ge"); }
                (5, _) => { where_.push(format!("-{} <= {}", q, lit(-mid, is_int))); used.push("neg_le"); }
                (6, Some((q2, c2))) => { let r2 = rng_of(c2).unwrap(); where_.push(format!("{} - {} <= {}", q, q2, lit(mid - (r2.0 + r2.1) / 2.0, is_int && r2.2))); used.push("diff_le"); }
                (7, _) => { where_.push(format!("CASE WHEN {} > {} THEN 1 ELSE 0 END = 1", q, lit(mid, is_int))); used.push("case_eq"); }
                _ => {}
            }
        }
        if !used.is_empty() {
            used.sort();
            used.dedup();
            tags.push(format!("where_fn:{}", used.join("+")));
        }
    }

    // a comparison between two columns (own stream): filters narrow the types of both operands,
    // and a narrowed finite value set becomes the list of public groups
    let mut rcc = Rng::stream(seed, run, "where_col_cmp");
    if rcc.chance(profile.p_where_col_cmp) {
        let fam = |c: &ColSpec| -> u8 {
            match &c.ty {
                ColType::IntRange { .. } | ColType::IntValues(_) => 1,
                ColType::FloatRange { .. } | ColType::FloatValues(_) => 2,
                ColType::TextValues(_) => 3,
                _ => 0,
            }
        };
        let cand: Vec<&(String, ColSpec)> = cols.iter().filter(|(q, c)| !is_id(q) && fam(c) != 0).collect();
        // prefer a left operand with a declared finite value set
        let mut lefts: Vec<&(String, ColSpec)> = cand.iter().filter(|(_, c)| matches!(c.ty, ColType::IntValues(_) | ColType::TextValues(_))).cloned().collect();
        // ... and, among those, one the query groups by
        let keyed: Vec<&(String, ColSpec)> = lefts.iter().filter(|(q, _)| keys.iter().any(|k| &k.expr == q && k.public_set.is_some())).cloned().collect();
        if !keyed.is_empty() && rcc.chance(0.75) {
            lefts = keyed;
        } else if lefts.is_empty() || rcc.chance(0.3) {
            lefts = cand.clone();
        }
        if !lefts.is_empty() {
            let (ql, cl) = lefts[rcc.usize(lefts.len())];
            let rights: Vec<&(String, ColSpec)> = cand.iter().filter(|(q, c)| q != ql && fam(c) == fam(cl)).cloned().collect();
            // ... compared with another column of few values, so that the value sets overlap
            let small: Vec<&(String, ColSpec)> = rights.iter().filter(|(_, c)| match &c.ty {
                ColType::IntValues(_) | ColType::TextValues(_) => true,
                ColType::IntRange { lo, hi } => hi - lo <= 8,
                _ => false,
            }).cloned().collect();
            let rights = if !small.is_empty() && rcc.chance(0.8) { small } else { rights };
            // ... or with a two-valued expression over the left operand's own value set
            let own: Vec<String> = match &cl.ty {
                ColType::IntValues(v) if v.len() >= 3 => v.iter().map(|x| x.to_string()).collect(),
                ColType::TextValues(v) if v.len() >= 3 => v.iter().map(|x| format!("'{}'", x)).collect(),
                _ => vec![],
            };
            let cond_col = numeric.iter().find(|(q2, c2)| q2 != ql && matches!(c2.ty, ColType::IntRange { .. } | ColType::FloatRange { .. }));
            if let (true, Some((qc, cc)), true) = (!own.is_empty(), cond_col, rcc.chance(0.5)) {
                let mid = match &cc.ty {
                    ColType::IntRange { lo, hi } => format!("{}", (lo + hi) / 2),
                    ColType::FloatRange { lo, hi } => format!("{:?}", ((lo + hi) / 2.0 * 8.0).round() / 8.0 + 0.0625),
                    _ => unreachable!(),
                };
                let i = rcc.usize(own.len());
                let j = (i + 1 + rcc.usize(own.len() - 1)) % own.len();
                where_.push(format!("{} <> CASE WHEN {} > {} THEN {} ELSE {} END", ql, qc, mid, own[i], own[j]));
                tags.push("where_col_cmp:ne_case".into());
            } else if !rights.is_empty() {
                let (qr, _) = rights[rcc.usize(rights.len())];
                let op = if fam(cl) == 3 { *rcc.pick(&["<>", "<>", "="]) } else { *rcc.pick(&["<>", "<>", "<", ">=", "="]) };
                where_.push(format!("{} {} {}", ql, op, qr));
                tags.push(format!("where_col_cmp:{}", match op { "<>" => "ne", "=" => "eq", "<" => "lt", _ => "ge" }));
            }
        }
    }

    // a WHERE conjunct on a key column may narrow it to a public set in the compiler's reading
    for k in keys.iter_mut() {
        if !k.expr.starts_with("CASE") && where_.iter().any(|w| !non_narrowing.contains(w) && w.contains(k.expr.as_str())) {
            k.ambiguous = true;
        }
        // ... and so may an equality with a column of another table in a join condition
        if from.iter().any(|f| f.on.as_deref().map_or(false, |on| on.contains(k.expr.as_str()))) {
            k.ambiguous = true;
        }
    }
    // columns of the nullable side of a LEFT JOIN are nullable whatever their declared type
    for k in keys.iter_mut() {
        for f in from.iter().filter(|f| f.kind == "LEFT JOIN") {
            if k.expr.contains(&format!("{}.", f.alias)) {
                k.ambiguous = true;
                k.nullable = true;
            }
        }
    }
    if from.iter().any(|f| f.kind == "RIGHT JOIN") {
        for k in keys.iter_mut() {
            if !k.expr.contains("r.") {
                k.ambiguous = true;
                k.nullable = true;
            }
        }
    }
    // nullability makes a key ambiguous only if it has a public value set to begin with: a
    // nullable column without one is private in every reading (only a WHERE / ON condition on it
    // could narrow it to something public)
    for k in keys.iter_mut() {
        if k.public_set.is_none() {
            let narrowed = where_.iter().any(|w| !non_narrowing.contains(w) && w.contains(k.expr.as_str()))
                || from.iter().any(|f| f.on.as_deref().map_or(false, |on| on.contains(k.expr.as_str())));
            k.ambiguous = narrowed;
        }
    }
    let kshape: Vec<&str> = keys.iter().map(|k| if k.public_set.is_some() { "pub" } else { "priv" }).collect();
    tags.push(format!("keys:{}", if kshape.is_empty() { "none".to_string() } else { kshape.join(",") }));

    // aggregates
    let mut aggs: Vec<AggSpec> = vec![];
    let na = 1 + rg.weighted(&[4, 4, 2, 1]);
    for j in 0..na {
        let f = *rg.pick(&[AggFn::CountStar, AggFn::Count, AggFn::Sum, AggFn::Sum, AggFn::Avg, AggFn::Avg, AggFn::Var, AggFn::Std]);
        let distinct = f != AggFn::CountStar && rg.chance(profile.p_distinct);
        let abs_of = |c: &ColSpec| -> f64 {
            match &c.ty {
                ColType::IntRange { lo, hi } => (lo.abs().max(hi.abs())) as f64,
                ColType::FloatRange { lo, hi } => lo.abs().max(hi.abs()),
                ColType::IntValues(v) => v.iter().map(|x| x.abs() as f64).fold(0.0, f64::max),
                ColType::FloatValues(v) => v.iter().map(|x| x.abs()).fold(0.0, f64::max),
                _ => 1.0,
            }
        };
        let (arg, scale) = match f {
            AggFn::CountStar => (String::new(), 1.0),
            AggFn::Count => (cols[rg.usize(cols.len())].0.clone(), 1.0),
            _ => {
                if numeric.is_empty() { continue; }
                let (q, c) = numeric[rg.usize(numeric.len())];
                if !distinct && rg.chance(0.15) {
                    let (q2, c2) = numeric[rg.usize(numeric.len())];
                    match rg.below(3) {
                        0 => (format!("{} * 2", q), 2.0 * abs_of(c)),
                        1 => (format!("{} + {}", q, q2), abs_of(c) + abs_of(c2)),
                        _ => (format!("{} - 1", q), abs_of(c) + 1.0),
                    }
                } else {
                    (q.clone(), abs_of(c))
                }
            }
        };
        aggs.push(AggSpec { f, distinct, arg, alias: format!("a{}", j), scale });
    }
    if aggs.is_empty() {
        aggs.push(AggSpec { f: AggFn::CountStar, distinct: false, arg: String::new(), alias: "a0".into(), scale: 1.0 });
    }
    // many sums in one aggregation (own stream): the budget is divided among all of them, and
    // whatever rule divides it is only stressed when there are a dozen or two
    let mut rma = Rng::stream(seed, run, "many_aggs");
    if rma.chance(profile.p_many_aggs) && !numeric.is_empty() {
        let n = 8 + rma.below(18) as usize;
        let abs_of = |c: &ColSpec| -> f64 {
            match &c.ty {
                ColType::IntRange { lo, hi } => (lo.abs().max(hi.abs())) as f64,
                ColType::FloatRange { lo, hi } => lo.abs().max(hi.abs()),
                ColType::IntValues(v) => v.iter().map(|x| x.abs() as f64).fold(0.0, f64::max),
                ColType::FloatValues(v) => v.iter().map(|x| x.abs()).fold(0.0, f64::max),
                _ => 1.0,
            }
        };
        let mut j = aggs.len();
        while aggs.len() < n {
            let (q, c) = numeric[rma.usize(numeric.len())];
            aggs.push(AggSpec { f: AggFn::Sum, distinct: false, arg: format!("{} + {}", q, j), alias: format!("a{}", j), scale: abs_of(c) + j as f64 });
            j += 1;
        }
        tags.push("many_aggs".into());
    }
    // a conditional inside the aggregate (own stream): sum(CASE WHEN x > m THEN x ELSE 0 END)
    let mut rca = Rng::stream(seed, run, "case_in_aggregate");
    for a in aggs.iter_mut() {
        if matches!(a.f, AggFn::Sum | AggFn::Avg) && !a.distinct && rca.chance(0.08) {
            if let Some((q, c)) = numeric.iter().find(|(q, _)| *q == a.arg) {
                let mid = match &c.ty {
                    ColType::IntRange { lo, hi } => Some(((lo + hi) / 2) as f64),
                    ColType::FloatRange { lo, hi } => Some(((lo + hi) / 2.0 * 8.0).round() / 8.0),
                    _ => None,
                };
                if let Some(m) = mid {
                    a.arg = format!("CASE WHEN {} > {:?} THEN {} ELSE 0 END", q, m, q);
                }
            }
        }
    }
    let mut ashape: Vec<String> = aggs.iter().map(|a| format!("{:?}{}", a.f, if a.distinct { "D" } else { "" })).collect();
    ashape.sort();
    ashape.dedup();
    tags.push(format!("aggs:{}", ashape.join(",")));
    let having = if !keys.is_empty() && rg.chance(0.1) { tags.push("having".into()); Some(format!("count(*) > {}", rg.below(3))) } else { None };
    let outer = if rg.chance(profile.p_outer) {
        tags.push("outer".into());
        let mut o: Vec<(String, String)> = keys.iter().map(|k| (k.alias.clone(), k.alias.clone())).collect();
        for a in &aggs {
            let e = match rg.below(3) { 0 => format!("{} * 2", a.alias), 1 => format!("{} + 1", a.alias), _ => a.alias.clone() };
            o.push((e, a.alias.clone()));
        }
        Some(o)
    } else { None };
    if !where_.is_empty() { tags.push("where".into()); }
    let base = Some((alias_of(&base_t.name), base_t.name.clone()));
    // nested DP sub-query: a global mean of a numeric column of the base table, used inside one
    // aggregate of the outer query (two DP aggregations, composed along a join)
    let mut cte = None;
    if rg.chance(profile.p_nested) {
        let base_alias = alias_of(&base_t.name);
        let own_numeric: Vec<&(String, ColSpec)> = numeric.iter().cloned().filter(|(q, _)| q.starts_with(&format!("{}.", base_alias))).collect();
        if !own_numeric.is_empty() {
            let (q, c) = own_numeric[rg.usize(own_numeric.len())];
            let col = q.split('.').nth(1).unwrap().to_string();
            cte = Some(format!("SELECT avg(b.{}) AS m FROM {} AS b", col, base_t.name));
            // ... read through a projection (own stream): the DP sub-query then reaches the join as a
            // *published* relation (a Map over a DP Reduce), not as the DP Reduce itself
            let mut rnp = Rng::stream(seed, run, "nested_published");
            if rnp.chance(profile.p_nested_published) {
                cte = Some(match rnp.below(2) {
                    0 => format!("SELECT x.m AS m FROM (SELECT avg(b.{}) AS m FROM {} AS b) AS x", col, base_t.name),
                    _ => format!("SELECT x.m + 0 AS m FROM (SELECT avg(b.{}) AS m FROM {} AS b) AS x", col, base_t.name),
                });
                tags.push("nested_published".into());
            }
            let scale = match &c.ty {
                ColType::IntRange { lo, hi } => (hi - lo).abs() as f64 + 1.0,
                ColType::FloatRange { lo, hi } => (hi - lo).abs() + 1.0,
                _ => 1000.0,
            };
            let f = *rg.pick(&[AggFn::Sum, AggFn::Avg]);
            let alias = format!("a{}", aggs.len());
            aggs.push(AggSpec { f, distinct: false, arg: format!("{} - s.m", q), alias, scale });
            tags.push("nested".into());
        }
    }
    let mut query = QuerySpec { from, where_, keys, aggs, having, outer: if cte.is_some() { None } else { outer }, plain: None, cte, raw_sql: None, holders_override: None, inner_where: vec![], outer_group_by: false, extra_select: vec![], shadow_cte: None, hide_keys: false };
    // HAVING on a SUM (own stream) instead of on count(*): the threshold has a fraction no sum of
    // generated values hits, so rounding cannot decide the group
    let mut rha = Rng::stream(seed, run, "having_agg");
    if query.having.is_some() && rha.chance(0.6) {
        // ... preferably a SUM / COUNT of a grouping column itself
        let key_col = query.keys.iter().find(|k| k.group_expr.is_none() && numeric.iter().any(|(q, c)| *q == k.expr && !c.optional)).map(|k| k.expr.clone());
        let sum_agg = query.aggs.iter().find(|a| a.f == AggFn::Sum && !a.distinct).map(|a| (a.arg.clone(), a.scale));
        match (key_col, sum_agg) {
            (Some(k), _) if rha.chance(0.7) => {
                if rha.chance(0.5) {
                    query.having = Some(format!("sum({}) > {:?}", k, rha.below(4) as f64 * 2.0 + 0.123456));
                } else {
                    query.having = Some(format!("count({}) > {:?}", k, rha.below(3) as f64 + 0.5));
                }
                tags.push("having_agg_of_key".into());
            }
            (_, Some((arg, scale))) => {
                // (positive: a declared key value without rows reads sum 0 in the DP result and must
                // not pass a HAVING the original query's missing group cannot pass either)
                let t = rha.below(4) as f64 * scale.min(100.0) / 2.0 + 0.123456;
                query.having = Some(format!("sum({}) > {:?}", arg, t));
                tags.push("having_sum".into());
            }
            _ => {}
        }
    }
    // scalar functions around aggregated columns and value-set keys (own stream): every function
    // has its own typing rule, and the DP path turns propagated types into clamp bounds and
    // public key values
    let mut rfe = Rng::stream(seed, run, "fn_exprs");
    if rfe.chance(profile.p_fn_exprs) && query.cte.is_none() {
        let spec_of = |e: &str| -> Option<ColSpec> { cols.iter().find(|(q, _)| q == e).map(|(_, c)| c.clone()) };
        let mut used = vec![];
        for a in query.aggs.iter_mut() {
            if !matches!(a.f, AggFn::Sum | AggFn::Avg) || a.distinct || !rfe.chance(0.6) {
                continue;
            }
            let Some(c) = spec_of(&a.arg) else { continue };
            let (lo, hi, is_int) = match &c.ty {
                ColType::IntRange { lo, hi } => (*lo as f64, *hi as f64, true),
                ColType::FloatRange { lo, hi } => (*lo, *hi, false),
                ColType::IntValues(v) => (*v.iter().min().unwrap() as f64, *v.iter().max().unwrap() as f64, true),
                _ => continue,
            };
            let mid = if is_int { ((lo + hi) / 2.0).floor() } else { ((lo + hi) / 2.0 * 8.0).round() / 8.0 };
            let q = a.arg.clone();
            let m = lo.abs().max(hi.abs());
            let lit = |x: f64| if is_int { format!("{}", x as i64) } else { format!("{:?}", x) };
            let straddles = is_int && lo < 0.0 && hi > 0.0;
            let (expr, scale, name) = match if straddles && rfe.chance(0.5) { 9 } else { rfe.below(10) } {
                0 => (format!("abs({})", q), m, "abs"),
                1 => (format!("-{}", q), m, "neg"),
                2 => (format!("{} * {}", q, q), m * m, "square"),
                3 if c.optional => (format!("coalesce({}, {})", q, lit(mid)), m, "coalesce"),
                4 => (format!("least({}, {})", q, lit(mid)), m, "least"),
                5 => (format!("greatest({}, {})", q, lit(mid)), m, "greatest"),
                6 if !is_int => (format!("floor({})", q), m + 1.0, "floor"),
                7 if !is_int => (format!("ceil({})", q), m + 1.0, "ceil"),
                8 if is_int && rfe.chance(0.5) => (format!("cast({} AS float)", q), m, "cast_float"),
                8 if is_int => (format!("{} / 2.0", q), m, "int_over_float_literal"),
                9 if !is_int => (format!("{} / 2", q), m, "half"),
                9 if is_int && lo < 0.0 && hi > 0.0 => (format!("CASE WHEN abs({}) <= 1 THEN {} ELSE 0 END", q, q), m, "case_abs"),
                6 | 7 if is_int && lo < 0.0 && hi > 0.0 => (format!("CASE WHEN abs({}) >= 2 THEN 1 ELSE 0 END", q), 1.0, "case_abs"),
                _ => continue,
            };
            a.arg = expr;
            a.scale = scale.max(1.0);
            used.push(name);
        }
        // COUNT / AVG of an expression with a nullable operand: NULL if any operand is
        for a in query.aggs.iter_mut() {
            if !matches!(a.f, AggFn::Count | AggFn::Avg) || a.distinct || a.arg.contains('(') || a.arg.contains(' ') || !rfe.chance(0.5) {
                continue;
            }
            let Some(c) = spec_of(&a.arg) else { continue };
            if !c.ty.is_numeric() {
                continue;
            }
            if let Some((q2, c2)) = numeric.iter().find(|(q2, c2)| *q2 != a.arg && (c2.optional || c.optional)) {
                let abs_of = |c: &ColSpec| -> f64 {
                    match &c.ty {
                        ColType::IntRange { lo, hi } => (lo.abs().max(hi.abs())) as f64,
                        ColType::FloatRange { lo, hi } => lo.abs().max(hi.abs()),
                        _ => 100.0,
                    }
                };
                a.scale = abs_of(&c) + abs_of(c2);
                a.arg = format!("{} + {}", a.arg, q2);
                used.push("nullable_sum_arg");
            }
        }
        for k in query.keys.iter_mut() {
            if k.group_expr.is_some() || k.select_agg.is_some() || k.nullable || !rfe.chance(0.5) {
                continue;
            }
            let Some(c) = spec_of(&k.expr) else { continue };
            let q = k.expr.clone();
            match (&c.ty, k.public_set.clone()) {
                (ColType::TextValues(_), Some(set)) => {
                    let (expr, f): (String, Box<dyn Fn(&str) -> String>) = match rfe.below(3) {
                        0 => (format!("upper({})", q), Box::new(|t: &str| t.to_uppercase())),
                        1 => (format!("lower({})", q), Box::new(|t: &str| t.to_lowercase())),
                        _ => (format!("{} || '_'", q), Box::new(|t: &str| format!("{}_", t))),
                    };
                    let mut out: Vec<Cell> = vec![];
                    for v in set.iter() {
                        if let Cell::Text(t) = v {
                            let n = Cell::Text(f(t));
                            if !out.iter().any(|o| o.key() == n.key()) {
                                out.push(n);
                            }
                        }
                    }
                    k.expr = expr;
                    k.public_set = Some(out);
                    k.ambiguous = true;
                    used.push("text_key_fn");
                }
                (ColType::IntRange { lo, hi }, None) if *lo < 0 && *hi > 0 && hi - lo <= 12 && !c.optional => {
                    let m = lo.abs().max(*hi);
                    k.expr = format!("abs({})", q);
                    k.public_set = Some((0..=m).map(Cell::Int).collect());
                    k.ambiguous = true;
                    used.push("abs_range_key");
                }
                (ColType::IntValues(_), Some(set)) => {
                    let (expr, f): (String, Box<dyn Fn(i64) -> i64>) = match rfe.below(4) {
                        0 => (format!("abs({})", q), Box::new(|x: i64| x.abs())),
                        1 => (format!("{} + 1", q), Box::new(|x: i64| x + 1)),
                        2 => (format!("{} / 2", q), Box::new(|x: i64| x / 2)),
                        _ => (format!("-{}", q), Box::new(|x: i64| -x)),
                    };
                    let mut out: Vec<Cell> = vec![];
                    for v in set.iter() {
                        if let Cell::Int(i) = v {
                            let n = Cell::Int(f(*i));
                            if !out.iter().any(|o| o.key() == n.key()) {
                                out.push(n);
                            }
                        }
                    }
                    k.expr = expr;
                    k.public_set = Some(out);
                    k.ambiguous = true;
                    used.push("int_key_fn");
                }
                _ => {}
            }
        }
        if !used.is_empty() {
            used.sort();
            used.dedup();
            tags.push(format!("fn:{}", used.join("+")));
        }
    }
    // mathematical functions and two-operand arithmetic inside SUM / AVG (own stream): sqrt, exp,
    // ln, logarithms of every spelling, powers, sign, products and differences - each one is
    // re-typed by the compiler, and the propagated range becomes the clamp bound
    let mut rme = Rng::stream(seed, run, "math_exprs");
    if rme.chance(profile.p_math_exprs) && query.cte.is_none() {
        let spec_of = |e: &str| -> Option<ColSpec> { cols.iter().find(|(q, _)| q == e).map(|(_, c)| c.clone()) };
        let range_of = |c: &ColSpec| -> Option<(f64, f64, bool)> {
            match &c.ty {
                ColType::IntRange { lo, hi } => Some((*lo as f64, *hi as f64, true)),
                ColType::FloatRange { lo, hi } => Some((*lo, *hi, false)),
                ColType::IntValues(v) => Some((*v.iter().min().unwrap() as f64, *v.iter().max().unwrap() as f64, true)),
                _ => None,
            }
        };
        let mut used = vec![];
        for a in query.aggs.iter_mut() {
            if !matches!(a.f, AggFn::Sum | AggFn::Avg) || a.distinct || a.arg.contains('(') || a.arg.contains(' ') || !rme.chance(0.7) {
                continue;
            }
            let Some(c) = spec_of(&a.arg) else { continue };
            let Some((lo, hi, is_int)) = range_of(&c) else { continue };
            let q = a.arg.clone();
            let m = lo.abs().max(hi.abs()).max(1.0);
            if m > 1.0e6 {
                continue;
            }
            // a power of two above the magnitude: `q * inv` lies in [-1, 1] and is exact
            let mut p2 = 1.0f64;
            while p2 < m {
                p2 *= 2.0;
            }
            let inv = format!("{:?}", 1.0 / p2);
            // shift making the operand of a logarithm at least 2 (non-integral for float columns,
            // integral for integer ones, so that the literal keeps the column's own type)
            let shift = if is_int { format!("{}", (2.0 - lo) as i64) } else { format!("{:?}", 2.25 - lo.floor()) };
            let top = hi - lo + 3.25;
            let other = numeric.iter().find(|(q2, c2)| *q2 != q && range_of(c2).map_or(false, |r| r.0.abs().max(r.1.abs()) <= 1.0e6));
            // (a denominator whose declared range excludes zero, on either side)
            let positive = numeric.iter().find(|(q2, c2)| *q2 != q && range_of(c2).map_or(false, |r| (r.0 > 0.0 || r.1 < 0.0) && r.0.abs().max(r.1.abs()) <= 1.0e6));
            let a_text = cols.iter().find(|(qt, ct)| !is_id(qt) && matches!(ct.ty, ColType::TextValues(_) | ColType::Text));
            let (expr, scale, name) = match rme.below(26) {
                22 | 24 => (format!("sin({})", q), 1.0, "sin"),
                23 | 25 => (format!("cos({})", q), 1.0, "cos"),
                18 => (format!("round({} * 0.37, 1)", q), 0.37 * m + 0.05, "round1"),
                19 => (format!("trunc({} * 0.37)", q), 0.37 * m + 1.0, "trunc"),
                20 => (format!("round({} * 0.37)", q), 0.37 * m + 1.0, "round0"),
                21 => match a_text {
                    Some((qt, _)) => (format!("char_length({}) + {}", qt, q), m + 8.0, "char_length"),
                    None => continue,
                },
                16 => (format!("sin({})", q), 1.0, "sin"),
                17 => (format!("cos({})", q), 1.0, "cos"),
                14 | 15 => match positive {
                    // a ratio of two columns; the denominator's declared range excludes zero
                    Some((q2, c2)) => (format!("{} / {}", q, q2), m / { let r = range_of(c2).unwrap(); r.0.abs().min(r.1.abs()).min(1.0).max(1e-9) }, if c2.optional { "ratio_nullable_den" } else { "ratio" }),
                    None => continue,
                },
                0 if lo >= 0.0 => (format!("sqrt({})", q), m.sqrt(), "sqrt"),
                0 => (format!("sqrt(abs({}))", q), m.sqrt(), "sqrt_abs"),
                1 => (format!("exp({} * {})", q, inv), std::f64::consts::E, "exp"),
                2 => (format!("ln({} + {})", q, shift), top.ln(), "ln"),
                3 => (format!("log10({} + {})", q, shift), top.log10(), "log10"),
                4 => (format!("log2({} + {})", q, shift), top.log2(), "log2"),
                5 => (format!("log({} + {})", q, shift), top.log10(), "log"),
                6 => (format!("log(2, {} + {})", q, shift), top.log2(), "log_base"),
                7 => (format!("pow({}, 2)", q), m * m, "pow2"),
                8 if m <= 1.0e4 => (format!("power({}, 3)", q), m * m * m, "pow3"),
                9 => (format!("sign({})", q), 1.0, "sign"),
                10 => (format!("{} - {}", q, if is_int { format!("{}", ((lo + hi) / 2.0).floor() as i64) } else { format!("{:?}", ((lo + hi) / 2.0 * 8.0).round() / 8.0 + 0.0625) }), 2.0 * m + 1.0, "minus_lit"),
                11 => (format!("{} * -0.5", q), m, "times_neg"),
                12 | 13 => match other {
                    Some((q2, c2)) => {
                        let r2 = range_of(c2).unwrap();
                        let m2 = r2.0.abs().max(r2.1.abs()).max(1.0);
                        if rme.chance(0.5) {
                            (format!("{} * {}", q, q2), m * m2, "product")
                        } else {
                            (format!("{} - {}", q, q2), m + m2, "difference")
                        }
                    }
                    None => continue,
                },
                _ => continue,
            };
            a.arg = expr;
            a.scale = scale.max(1.0);
            used.push(name);
        }
        if !used.is_empty() {
            used.sort();
            used.dedup();
            tags.push(format!("math:{}", used.join("+")));
        }
    }
    // conditional counts and sums (own stream): `sum(CASE WHEN k = v THEN 1 ELSE 0 END)` and its
    // relatives over a discrete column - the comparison is typed on the declared value set
    let mut rca = Rng::stream(seed, run, "cond_agg");
    if rca.chance(profile.p_cond_agg) && query.cte.is_none() {
        let mut used = vec![];
        for a in query.aggs.iter_mut() {
            if !matches!(a.f, AggFn::Sum | AggFn::Avg) || a.distinct || a.arg.contains('(') || a.arg.contains(' ') || !rca.chance(0.8) {
                continue;
            }
            let Some((_, c)) = cols.iter().find(|(q, _)| *q == a.arg) else { continue };
            let m = match &c.ty {
                ColType::IntRange { lo, hi } => lo.abs().max(hi.abs()) as f64,
                ColType::FloatRange { lo, hi } => lo.abs().max(hi.abs()),
                ColType::IntValues(v) => v.iter().map(|x| x.abs()).max().unwrap_or(1) as f64,
                _ => continue,
            };
            let q = a.arg.clone();
            let sets: Vec<(String, String, String)> = cols.iter().filter(|(qd, _)| !is_id(qd)).filter_map(|(qd, cd)| match &cd.ty {
                ColType::IntValues(v) if v.len() >= 2 => Some((qd.clone(), v[rca.usize(v.len())].to_string(), v[rca.usize(v.len())].to_string())),
                _ => None,
            }).collect();
            let others: Vec<(String, String, String)> = cols.iter().filter(|(qd, _)| !is_id(qd) && *qd != q).filter_map(|(qd, cd)| match &cd.ty {
                ColType::IntRange { lo, hi } if hi - lo >= 1 && hi - lo <= 12 => Some((qd.clone(), lo.to_string(), (lo + 1).to_string())),
                ColType::TextValues(v) if v.len() >= 2 => Some((qd.clone(), format!("'{}'", v[0]), format!("'{}'", v[v.len() - 1]))),
                _ => None,
            }).collect();
            let disc = if !sets.is_empty() && (others.is_empty() || rca.chance(0.7)) { sets } else { others };
            if disc.is_empty() { continue; }
            let (qd, v1, v2) = disc[rca.usize(disc.len())].clone();
            // a nullable column compared with something its whole declared range satisfies: only a
            // NULL takes the ELSE branch
            let always: Vec<String> = cols.iter().filter(|(qd, cd)| !is_id(qd) && cd.optional).filter_map(|(qd, cd)| match &cd.ty {
                ColType::IntRange { lo, .. } => Some(format!("{} > {}", qd, lo - 1)),
                ColType::FloatRange { lo, .. } => Some(format!("{} >= {:?}", qd, lo - 0.5)),
                _ => None,
            }).collect();
            if !always.is_empty() && rca.chance(0.3) {
                let cond = always[rca.usize(always.len())].clone();
                a.arg = if rca.chance(0.5) { format!("CASE WHEN {} THEN 1 ELSE 5 END", cond) } else { format!("CASE WHEN {} THEN 0 ELSE {} END", cond, q) };
                a.scale = m.max(5.0);
                used.push("else_for_null_only");
                continue;
            }
            let (expr, scale, name) = match rca.below(5) {
                0 => (format!("CASE WHEN {} = {} THEN 1 ELSE 0 END", qd, v1), 1.0, "count_eq"),
                1 => (format!("CASE WHEN {} = {} THEN {} ELSE 0 END", qd, v2, q), m, "sum_eq"),
                2 => (format!("CASE WHEN {} <> {} THEN {} ELSE 0 END", qd, v1, q), m, "sum_ne"),
                3 => (format!("CASE WHEN {} IN ({}, {}) THEN {} ELSE 0 END", qd, v1, v2, q), m, "sum_in"),
                _ => (format!("CASE WHEN {} = {} THEN {} WHEN {} = {} THEN -{} ELSE 0 END", qd, v1, q, qd, v2, q), m, "sum_two"),
            };
            a.arg = expr;
            a.scale = scale.max(1.0);
            used.push(name);
        }
        if !used.is_empty() {
            used.sort();
            used.dedup();
            tags.push(format!("cond_agg:{}", used.join("+")));
        }
    }
    // one WHERE conjunct on the base table moved into a derived table around it (own stream): two
    // stacked filters on the way to the aggregation
    let mut riw = Rng::stream(seed, run, "inner_where");
    if riw.chance(profile.p_inner_where) && query.cte.is_none() && query.where_.len() >= 2 {
        let prefix = format!("{}.", query.from[0].alias);
        let others: Vec<String> = query.from.iter().skip(1).map(|f| format!("{}.", f.alias)).collect();
        if let Some(i) = query.where_.iter().position(|w| w.contains(&prefix) && !others.iter().any(|o| w.contains(o.as_str()))) {
            let w = query.where_.remove(i);
            query.inner_where.push(w);
            tags.push("inner_where".into());
        }
    }
    // keys that are grouped on but not selected (own stream): `SELECT count(*) FROM t GROUP BY k`
    let mut rhk = Rng::stream(seed, run, "hidden_keys");
    if rhk.chance(profile.p_hidden_keys) && !query.keys.is_empty() && query.outer.is_none() && query.having.is_none() && query.cte.is_none()
        && query.extra_select.is_empty() && query.keys.iter().all(|k| k.select_agg.is_none() && k.group_expr.is_none() && k.public_set.is_none() && !k.ambiguous) {
        query.hide_keys = true;
        tags.push("hidden_keys".into());
    }
    // a schema-qualified catalogue (tables registered as main.<name>), and on it a CTE named like
    // the table it filters: `WITH orders AS (SELECT * FROM main.orders AS o WHERE ...) ... FROM
    // orders AS o` - the CTE shadows the table (own stream)
    let mut rsp = Rng::stream(seed, run, "schema_path");
    if rsp.chance(profile.p_schema_path) && synthetic.is_empty() && tables.iter().all(|t| t.qrlew_name.is_none()) {
        tags.push("schema_path".into());
        if query.cte.is_none() && query.inner_where.is_empty() && rsp.chance(0.8) {
            let prefix = format!("{}.", query.from[0].alias);
            let others: Vec<String> = query.from.iter().skip(1).map(|f| format!("{}.", f.alias)).collect();
            if let Some(i) = query.where_.iter().position(|w| w.contains(&prefix) && !others.iter().any(|o| w.contains(o.as_str()))) {
                let w = query.where_.remove(i);
                query.inner_where.push(w);
            }
        }
        if query.cte.is_none() && !query.inner_where.is_empty() {
            query.shadow_cte = Some("main".into());
            tags.push("shadow_cte".into());
        }
    }
    // COUNT of a UNIQUE column of the NULL-extended side of a LEFT JOIN (own stream)
    let mut rcu = Rng::stream(seed, run, "count_of_unique");
    if rcu.chance(profile.p_count_of_unique) && query.cte.is_none() {
        if let Some(f) = query.from.iter().skip(1).find(|f| f.kind == "LEFT JOIN") {
            let prefix = format!("{}.", f.alias);
            if let Some((q, _)) = cols.iter().find(|(q, c)| q.starts_with(&prefix) && c.unique) {
                if let Some(a) = query.aggs.iter_mut().find(|a| a.f == AggFn::Count && !a.distinct) {
                    a.arg = q.clone();
                    tags.push("count_of_unique".into());
                } else if let Some(a) = query.aggs.iter_mut().find(|a| a.f == AggFn::CountStar) {
                    a.f = AggFn::Count;
                    a.arg = q.clone();
                    tags.push("count_of_unique".into());
                }
            }
        }
    }
    // a bare, un-grouped, un-aggregated column next to the aggregates (own stream)
    let mut res = Rng::stream(seed, run, "extra_select");
    if res.chance(profile.p_extra_select) && !query.keys.is_empty() && query.cte.is_none() && query.outer.is_none() {
        if let Some((q, _)) = cols.iter().find(|(q, _)| !is_id(q) && !query.keys.iter().any(|k| k.expr.contains(q.as_str()))) {
            query.extra_select.push((q.clone(), "x0".to_string()));
            tags.push("extra_select".into());
        }
    }
    // one of several keys output through MAX / MIN of itself instead of a plain projection (own
    // stream): same values, another path through the compiler's re-projection of the keys
    let mut rka = Rng::stream(seed, run, "key_via_agg");
    if rka.chance(profile.p_key_via_agg) && query.keys.len() >= 2 && query.cte.is_none() {
        let pick = query.keys.iter().rposition(|k| k.public_set.is_none()).unwrap_or(query.keys.len() - 1);
        if !query.keys[pick].expr.starts_with("CASE") {
            query.keys[pick].select_agg = Some(rka.pick(&["max", "min"]).to_string());
            tags.push("key_via_agg".into());
        }
    }
    // `%` over a column with a declared value set, as key or inside an aggregate (own stream)
    let mut rmo = Rng::stream(seed, run, "modulo");
    if rmo.chance(profile.p_modulo) && query.cte.is_none() {
        let int_valued = |e: &str| -> Option<Vec<i64>> {
            cols.iter().find(|(q, c)| q == e && !c.optional).and_then(|(_, c)| match &c.ty {
                ColType::IntValues(v) => Some(v.clone()),
                _ => None,
            })
        };
        let mut done = false;
        for k in query.keys.iter_mut() {
            if let Some(vals) = int_valued(&k.expr) {
                let mut set: Vec<i64> = vals.iter().map(|v| v % 2).collect();
                set.sort();
                set.dedup();
                k.expr = format!("{} % 2", k.expr);
                k.public_set = Some(set.into_iter().map(Cell::Int).collect());
                k.ambiguous = true;
                done = true;
                break;
            }
        }
        for a in query.aggs.iter_mut() {
            if matches!(a.f, AggFn::Sum | AggFn::Avg) && !a.distinct {
                if int_valued(&a.arg).is_some() {
                    a.arg = format!("{} % 2", a.arg);
                    a.scale = 1.0;
                    done = true;
                    break;
                }
            }
        }
        if done {
            tags.push("modulo".into());
        }
    }
    // an aggregate the DP compiler does not support (MAX / MIN): over the DP aggregation, or alone
    // (then only synthetic data can answer it)
    let mut rua = Rng::stream(seed, run, "unsupported_agg");
    if rua.chance(profile.p_unsupported_agg) && query.cte.is_none() {
        let f = *rua.pick(&["max", "min"]);
        if (rua.chance(0.5) || profile.need_private_key) && !query.aggs.is_empty() {
            let a = query.aggs[rua.usize(query.aggs.len())].alias.clone();
            if !query.keys.is_empty() && (rua.chance(0.7) || profile.need_private_key) {
                // ... re-grouped by the keys of the DP aggregation
                let mut o: Vec<(String, String)> = query.keys.iter().map(|k| (k.alias.clone(), k.alias.clone())).collect();
                o.push((format!("{}({})", f, a), "m".to_string()));
                query.outer = Some(o);
                query.outer_group_by = true;
            } else {
                query.outer = Some(vec![(format!("{}({})", f, a), "m".to_string())]);
            }
            tags.push("unsupported_agg_over_dp".into());
        } else if let Some((q, _)) = numeric.first() {
            query.plain = Some(vec![(format!("{}({})", f, q), "m".to_string())]);
            query.outer = None;
            tags.push("unsupported_agg_alone".into());
        }
    }
    // a SELECT alias that shadows the input column GROUP BY names (own stream): SQL groups on the
    // input column, so `SELECT f(c) AS c ... GROUP BY c` with a non-injective f has repeated keys
    let mut rs_ = Rng::stream(seed, run, "alias_shadow");
    if rs_.chance(profile.p_alias_shadow)
        && query.from.len() == 1
        && query.cte.is_none()
        && query.keys.len() == 1
        && query.having.is_none()
        && !query.keys[0].ambiguous
        && !query.keys[0].nullable
        && !query.aggs.iter().any(|a| a.distinct || matches!(a.f, AggFn::Var | AggFn::Std))
    {
        let k = &mut query.keys[0];
        if let (Some(set), Some(col)) = (k.public_set.clone(), k.expr.split_once('.').map(|x| x.1.to_string())) {
            let lit = |c: &Cell| -> Option<String> {
                match c {
                    Cell::Text(t) => Some(format!("'{}'", t)),
                    Cell::Int(i) => Some(format!("{}", i)),
                    _ => None,
                }
            };
            if set.len() >= 2 && col.chars().all(|c| c.is_ascii_alphanumeric() || c == '_') {
                let i = rs_.usize(set.len());
                let j = (i + 1 + rs_.usize(set.len() - 1)) % set.len();
                if let (Some(a), Some(b)) = (lit(&set[i]), lit(&set[j])) {
                    let qualified = k.expr.clone();
                    k.group_expr = Some(col.clone());
                    k.alias = col.clone();
                    k.expr = format!("CASE WHEN {} = {} THEN {} ELSE {} END", qualified, a, b, qualified);
                    if let Some(o) = query.outer.as_mut() {
                        o[0] = (col.to_string(), col.to_string());
                    }
                    tags.push("alias_shadow".into());
                }
            }
        }
    }
    finish(seed, run, tables, synthetic, pu, params, query, base, tags, faults, &protected)
}

#[allow(clippy::too_many_arguments)]
fn finish(
    seed: u64,
    run: u64,
    tables: Vec<TableSpec>,
    synthetic: Vec<TableSpec>,
    pu: PuSpec,
    params: Params,
    query: QuerySpec,
    base: Option<(String, String)>,
    mut tags: Vec<String>,
    faults: Vec<String>,
    _protected: &[String],
) -> Generated {
    // ---------------- compile-side state (F-hist, F-hash) ----------------
    let mut rh = Rng::stream(seed, run, "history");
    let reset_first = true;
    let mut burn = vec![];
    match rh.weighted(&[3, 3, 2, 2]) {
        0 => {}
        1 => {
            for p in ["GAUSSIAN_NOISE", "field", "table"] {
                burn.push((p.to_string(), rh.below(7)));
            }
        }
        2 => {
            burn.push(("GAUSSIAN_NOISE".to_string(), 1000 + rh.below(1_000_000)));
            burn.push(("field".to_string(), rh.below(100000)));
        }
        _ => {
            // make ids of different kinds coincide / interleave oddly
            burn.push(("GAUSSIAN_NOISE".to_string(), rh.below(3)));
            for t in ["users", "orders", "items"] {
                burn.push((t.to_string(), rh.below(4)));
            }
        }
    }
    tags.push(format!("hist:{}", if burn.is_empty() { "fresh" } else if burn[0].1 >= 1000 { "far" } else { "near" }));
    let compile = CompileState { reset_first, burn, hash_seed: rh.next_u64() >> 1 };
    let mut re = Rng::stream(seed, run, "engine");
    let sql = query.sql();
    let mut all_tags = tags;
    for f in &faults {
        all_tags.push(format!("fault:{}", f));
    }
    let scenario = Scenario {
        seed,
        run,
        tables,
        synthetic,
        pu,
        params,
        sql,
        query: Some(query),
        base,
        compile,
        engine_seed: re.next_u64(),
        depth: 0,
        schema_prefix: if all_tags.iter().any(|t| t == "schema_path") { Some("main".into()) } else { None },
        tags: all_tags,
    };
    Generated { scenario, faults }
}

pub fn literal(c: &Cell) -> String {
    lit(c)
}
