//! Structured form of the generated queries: SQL text is derived from it, the minimiser drops
//! pieces of it, and the oracles derive their own side queries (holders, population variants)
//! from it without consulting the compiler.
use crate::scenario::Cell;
use serde::{Deserialize, Serialize};

#[derive(Serialize, Deserialize, Clone, Debug, PartialEq)]
pub struct FromItem {
    pub table: String,
    pub alias: String,
    /// `None` for the first item; otherwise the join condition (SQL) and the join kind.
    pub on: Option<String>,
    pub kind: String,
}

#[derive(Serialize, Deserialize, Clone, Debug, PartialEq)]
pub struct KeySpec {
    pub expr: String,
    pub alias: String,
    /// Publicly declared finite value set, computed by the generator from the declared column
    /// type / the literals of the expression (never from the compiler's type propagation).
    pub public_set: Option<Vec<Cell>>,
    /// The key can be NULL (nullable column). The compiler does not treat a nullable enumerated
    /// column as public-valued (it thresholds it, which is allowed); C09 only uses keys that are
    /// public in both readings.
    #[serde(default)]
    pub nullable: bool,
    /// The harness cannot tell in advance whether the compiler will treat this key as
    /// public-valued (nullable column, computed key, IN-list narrowing): C09 compares such a
    /// run only if the rewriting turned out to release the keys without thresholding.
    #[serde(default)]
    pub ambiguous: bool,
    /// What GROUP BY names when it is not `expr` itself: the shape `SELECT f(c) AS c ... GROUP BY c`
    /// where the SELECT alias shadows the input column the grouping is on (SQL groups on the
    /// input column; output keys are then not unique).
    #[serde(default)]
    pub group_expr: Option<String>,
    /// The key is output through an aggregate of itself (`max(k) AS alias ... GROUP BY k`): the
    /// same values as a direct projection, but not a plain projection of a grouping column.
    #[serde(default)]
    pub select_agg: Option<String>,
}

#[derive(Serialize, Deserialize, Clone, Copy, Debug, PartialEq, Eq, Hash)]
pub enum AggFn {
    CountStar,
    Count,
    Sum,
    Avg,
    Var,
    Std,
}

#[derive(Serialize, Deserialize, Clone, Debug, PartialEq)]
pub struct AggSpec {
    pub f: AggFn,
    pub distinct: bool,
    /// SQL of the argument (empty for count(*)).
    pub arg: String,
    pub alias: String,
    /// Bound on |arg| from the declared column types (tolerances scale with it).
    pub scale: f64,
}

impl AggSpec {
    pub fn sql(&self, population: bool) -> String {
        let d = if self.distinct { "DISTINCT " } else { "" };
        match self.f {
            AggFn::CountStar => "count(*)".to_string(),
            AggFn::Count => format!("count({}{})", d, self.arg),
            AggFn::Sum => format!("sum({}{})", d, self.arg),
            AggFn::Avg => format!("avg({}{})", d, self.arg),
            AggFn::Var => format!(
                "{}({}{})",
                if population { "var_pop" } else { "variance" },
                d,
                self.arg
            ),
            AggFn::Std => format!(
                "{}({}{})",
                if population { "stddev_pop" } else { "stddev" },
                d,
                self.arg
            ),
        }
    }
}

#[derive(Serialize, Deserialize, Clone, Debug, PartialEq)]
pub struct QuerySpec {
    pub from: Vec<FromItem>,
    pub where_: Vec<String>,
    pub keys: Vec<KeySpec>,
    pub aggs: Vec<AggSpec>,
    pub having: Option<String>,
    /// Optional outer projection over the aggregate query: (expr over inner aliases, alias).
    pub outer: Option<Vec<(String, String)>>,
    /// Plain projection instead of an aggregation (C02: queries that must be refused or
    /// redirected to synthetic data): list of (expr, alias).
    pub plain: Option<Vec<(String, String)>>,
    /// A DP sub-query computed first and cross-joined as `s` (nested DP aggregation):
    /// SQL of the sub-query, e.g. `SELECT avg(b.amount) AS m FROM orders AS b`.
    #[serde(default)]
    pub cte: Option<String>,
    /// Shapes the structured form cannot express (aggregation over an aggregation): the SQL text
    /// itself, and the harness's holders query for it. The DP semantics of such a query differs
    /// from the original by design (the inner aggregation is computed per privacy unit), so C09
    /// does not apply to it.
    #[serde(default)]
    pub raw_sql: Option<String>,
    #[serde(default)]
    pub holders_override: Option<String>,
    /// Conjuncts applied inside a derived table around the first FROM item
    /// (`FROM (SELECT * FROM t AS a WHERE ...) AS a`): the same selection as if they stood in the
    /// outer WHERE, which is how the harness's own side queries read them.
    #[serde(default)]
    pub inner_where: Vec<String>,
    /// The outer projection aggregates again, grouped by the key aliases
    /// (`SELECT k0, max(a0) AS m FROM (...) AS sub GROUP BY k0`): one row per inner key tuple.
    #[serde(default)]
    pub outer_group_by: bool,
    /// Bare columns in the SELECT list of a grouped query that are neither keys nor aggregated
    /// (`SELECT city, age, count(*) ... GROUP BY city`): the parser takes FIRST(column); the DP
    /// compiler has to refuse such a query.
    #[serde(default)]
    pub extra_select: Vec<(String, String)>,
    /// The filtered first FROM item is written as a CTE named like the table it reads
    /// (`WITH orders AS (SELECT * FROM main.orders AS o WHERE ...) ... FROM orders AS o`):
    /// the CTE shadows the table. Needs a catalogue with schema-qualified paths.
    #[serde(default)]
    pub shadow_cte: Option<String>,
    /// The grouping keys are grouped on but not selected (`SELECT count(*) FROM t GROUP BY k`).
    #[serde(default)]
    pub hide_keys: bool,
}

impl QuerySpec {
    pub fn from_clause(&self) -> String {
        self.from_clause_as(false)
    }

    /// FROM with the derived-table filter of the first item moved out (see `where_clause_flat`).
    pub fn from_clause_flat(&self) -> String {
        self.from_clause_as(true)
    }

    pub fn where_clause_flat(&self) -> String {
        let all: Vec<String> = self.inner_where.iter().chain(self.where_.iter()).cloned().collect();
        if all.is_empty() {
            String::new()
        } else {
            format!(" WHERE {}", all.join(" AND "))
        }
    }

    fn from_clause_as(&self, flat: bool) -> String {
        let mut s = String::new();
        for (i, f) in self.from.iter().enumerate() {
            if i == 0 && !self.inner_where.is_empty() && !flat && self.shadow_cte.is_some() {
                s.push_str(&format!("{} AS {}", f.table, f.alias));
            } else if i == 0 && !self.inner_where.is_empty() && !flat {
                s.push_str(&format!("(SELECT * FROM {} AS {} WHERE {}) AS {}", f.table, f.alias, self.inner_where.join(" AND "), f.alias));
            } else if i == 0 {
                s.push_str(&format!("{} AS {}", f.table, f.alias));
            } else if f.kind == "CROSS JOIN" {
                s.push_str(&format!(" CROSS JOIN {} AS {}", f.table, f.alias));
            } else {
                s.push_str(&format!(
                    " {} {} AS {} ON {}",
                    f.kind,
                    f.table,
                    f.alias,
                    f.on.as_deref().unwrap_or("TRUE")
                ));
            }
        }
        if self.cte.is_some() {
            s.push_str(" CROSS JOIN s");
        }
        s
    }

    pub fn where_clause(&self) -> String {
        if self.where_.is_empty() {
            String::new()
        } else {
            format!(" WHERE {}", self.where_.join(" AND "))
        }
    }

    fn inner_sql(&self, population: bool) -> String {
        if let Some(p) = &self.plain {
            let items: Vec<String> = p.iter().map(|(e, a)| format!("{} AS {}", e, a)).collect();
            return format!("SELECT {} FROM {}{}", items.join(", "), self.from_clause(), self.where_clause());
        }
        let mut items: Vec<String> = self
            .keys
            .iter()
            .map(|k| match &k.select_agg {
                Some(f) => format!("{}({}) AS {}", f, k.expr, k.alias),
                None => format!("{} AS {}", k.expr, k.alias),
            })
            .collect();
        if self.hide_keys {
            items.clear();
        }
        items.extend(self.extra_select.iter().map(|(e, a)| format!("{} AS {}", e, a)));
        items.extend(self.aggs.iter().map(|a| format!("{} AS {}", a.sql(population), a.alias)));
        let mut s = format!("SELECT {} FROM {}{}", items.join(", "), self.from_clause(), self.where_clause());
        if !self.keys.is_empty() {
            let g: Vec<String> = self.keys.iter().map(|k| k.group_expr.clone().unwrap_or_else(|| k.expr.clone())).collect();
            s.push_str(&format!(" GROUP BY {}", g.join(", ")));
        }
        if let Some(h) = &self.having {
            s.push_str(&format!(" HAVING {}", h));
        }
        s
    }

    pub fn sql_variant(&self, population: bool) -> String {
        if let Some(r) = &self.raw_sql {
            return r.clone();
        }
        let body = self.sql_body(population);
        if let (Some(schema), Some(f), true, true) = (&self.shadow_cte, self.from.first(), !self.inner_where.is_empty(), self.cte.is_none()) {
            return format!("WITH {t} AS (SELECT * FROM {s}.{t} AS {a} WHERE {w}) {b}", t = f.table, s = schema, a = f.alias, w = self.inner_where.join(" AND "), b = body);
        }
        match &self.cte {
            None => body,
            Some(c) => format!("WITH s AS ({}) {}", c, body),
        }
    }

    fn sql_body(&self, population: bool) -> String {
        match &self.outer {
            None => self.inner_sql(population),
            Some(o) => {
                let items: Vec<String> = o.iter().map(|(e, a)| format!("{} AS {}", e, a)).collect();
                let g = if self.outer_group_by && !self.keys.is_empty() {
                    format!(" GROUP BY {}", self.keys.iter().map(|k| k.alias.clone()).collect::<Vec<_>>().join(", "))
                } else {
                    String::new()
                };
                format!("SELECT {} FROM ({}) AS sub{}", items.join(", "), self.inner_sql(population), g)
            }
        }
    }

    pub fn sql(&self) -> String {
        self.sql_variant(false)
    }

    /// (key tuple, unit) pairs of the rows the aggregation sees, with the unit read from the
    /// harness's own ownership side table of the first protected table in FROM.
    pub fn holders_sql(&self, base_alias: &str, base_table: &str) -> String {
        if let Some(h) = &self.holders_override {
            return h.clone();
        }
        let mut items: Vec<String> = self.keys.iter().map(|k| format!("{} AS {}", k.expr, k.alias)).collect();
        items.push("__w.unit AS __unit".to_string());
        format!(
            "SELECT DISTINCT {} FROM {} JOIN \"__own_{}\" AS __w ON __w.rid = {}.rowid{}",
            items.join(", "),
            self.from_clause_flat(),
            base_table,
            base_alias,
            self.where_clause_flat()
        )
    }
}
