//! One integer decides everything: `VERIF_SEED` -> SplitMix64 -> named sub-streams.
//! No other source of randomness exists in the harness; logging never draws.

#[derive(Clone, Debug)]
pub struct Rng {
    state: u64,
}

fn mix(mut z: u64) -> u64 {
    z = (z ^ (z >> 30)).wrapping_mul(0xbf58476d1ce4e5b9);
    z = (z ^ (z >> 27)).wrapping_mul(0x94d049bb133111eb);
    z ^ (z >> 31)
}

fn hash_str(s: &str) -> u64 {
    // FNV-1a, then mixed: stable across processes and hash seeds.
    let mut h: u64 = 0xcbf29ce484222325;
    for b in s.bytes() {
        h ^= b as u64;
        h = h.wrapping_mul(0x100000001b3);
    }
    mix(h)
}

impl Rng {
    pub fn new(seed: u64) -> Rng {
        Rng { state: seed }
    }
    /// Independent named sub-stream of (seed, run).
    pub fn stream(seed: u64, run: u64, name: &str) -> Rng {
        let s = mix(seed ^ 0x9e3779b97f4a7c15)
            ^ mix(run.wrapping_mul(0xd1342543de82ef95).wrapping_add(1))
            ^ hash_str(name);
        Rng { state: mix(s) }
    }
    pub fn next_u64(&mut self) -> u64 {
        self.state = self.state.wrapping_add(0x9e3779b97f4a7c15);
        mix(self.state)
    }
    /// Uniform in [0, n) (n > 0).
    pub fn below(&mut self, n: u64) -> u64 {
        debug_assert!(n > 0);
        // multiply-shift; bias is irrelevant here
        ((self.next_u64() as u128 * n as u128) >> 64) as u64
    }
    pub fn range(&mut self, lo: i64, hi: i64) -> i64 {
        debug_assert!(lo <= hi);
        lo + self.below((hi - lo + 1) as u64) as i64
    }
    pub fn usize(&mut self, n: usize) -> usize {
        self.below(n as u64) as usize
    }
    /// Uniform in [0, 1) with 53 bits.
    pub fn f64(&mut self) -> f64 {
        (self.next_u64() >> 11) as f64 / (1u64 << 53) as f64
    }
    pub fn uniform(&mut self, lo: f64, hi: f64) -> f64 {
        lo + (hi - lo) * self.f64()
    }
    /// Log-uniform in [lo, hi] (both > 0).
    pub fn log_uniform(&mut self, lo: f64, hi: f64) -> f64 {
        (lo.ln() + (hi.ln() - lo.ln()) * self.f64()).exp()
    }
    pub fn chance(&mut self, p: f64) -> bool {
        self.f64() < p
    }
    pub fn pick<'a, T>(&mut self, xs: &'a [T]) -> &'a T {
        &xs[self.usize(xs.len())]
    }
    pub fn shuffle<T>(&mut self, xs: &mut [T]) {
        for i in (1..xs.len()).rev() {
            let j = self.usize(i + 1);
            xs.swap(i, j);
        }
    }
    /// Weighted choice: returns an index.
    pub fn weighted(&mut self, w: &[u32]) -> usize {
        let total: u64 = w.iter().map(|x| *x as u64).sum();
        let mut t = self.below(total.max(1));
        for (i, x) in w.iter().enumerate() {
            if t < *x as u64 {
                return i;
            }
            t -= *x as u64;
        }
        w.len() - 1
    }
}
