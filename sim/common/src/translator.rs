//! The seam between the compiler and the simulated engine: an implementation of the repository's
//! own public `RelationToQueryTranslator` trait (no hook needed). It forwards everything to the
//! stock PostgreSQL translator and changes only
//!   * `Random(n)`            -> `SIM_RANDOM(n)`, with the Box-Muller roles told apart at AST level:
//!     `LN(SIM_RANDOM(n))`    -> `LN(SIM_U1(n))`, `COS(c * SIM_RANDOM(m))` -> `COS(c * SIM_U2(m))`;
//!   * every draw gets the alias of the column it feeds as second argument (site attribution);
//!   * every CTE is `AS MATERIALIZED` (engine model = PostgreSQL's CTE semantics, DESIGN 2.2);
//!   * the redundant column list in `(VALUES ..) AS "x" ("x")`, which SQLite rejects, is dropped.
use qrlew::{
    ast,
    dialect_translation::{postgresql::PostgreSqlTranslator, RelationToQueryTranslator},
    expr,
};

#[derive(Clone, Copy, Debug)]
pub struct SimTranslator {
    /// `false` = engine's native CTE policy (probe only, never gating).
    pub materialize: bool,
}

impl Default for SimTranslator {
    fn default() -> Self {
        SimTranslator { materialize: true }
    }
}

fn call(name: &str, args: Vec<ast::Expr>) -> ast::Expr {
    ast::Expr::Function(ast::Function {
        name: ast::ObjectName(vec![ast::Ident::new(name)]),
        args: ast::FunctionArguments::List(ast::FunctionArgumentList {
            duplicate_treatment: None,
            args: args
                .into_iter()
                .map(|e| ast::FunctionArg::Unnamed(ast::FunctionArgExpr::Expr(e)))
                .collect(),
            clauses: vec![],
        }),
        over: None,
        filter: None,
        null_treatment: None,
        within_group: vec![],
    })
}

fn num(n: i64) -> ast::Expr {
    ast::Expr::Value(ast::Value::Number(n.to_string(), false))
}

fn strip_nested(e: &ast::Expr) -> &ast::Expr {
    match e {
        ast::Expr::Nested(inner) => strip_nested(inner),
        e => e,
    }
}

/// If `e` is `SIM_RANDOM(n)`, return the argument list.
fn as_sim_random(e: &ast::Expr) -> Option<Vec<ast::FunctionArg>> {
    if let ast::Expr::Function(f) = strip_nested(e) {
        if f.name.0.len() == 1 && f.name.0[0].value == "SIM_RANDOM" {
            if let ast::FunctionArguments::List(l) = &f.args {
                return Some(l.args.clone());
            }
        }
    }
    None
}

fn renamed(args: Vec<ast::FunctionArg>, name: &str) -> ast::Expr {
    ast::Expr::Function(ast::Function {
        name: ast::ObjectName(vec![ast::Ident::new(name)]),
        args: ast::FunctionArguments::List(ast::FunctionArgumentList {
            duplicate_treatment: None,
            args,
            clauses: vec![],
        }),
        over: None,
        filter: None,
        null_treatment: None,
        within_group: vec![],
    })
}

/// Append the alias literal to every SIM_* call inside `e`.
fn tag_expr(e: &mut ast::Expr, alias: &str) {
    use ast::Expr as E;
    match e {
        E::Function(f) => {
            let is_sim = f.name.0.len() == 1 && f.name.0[0].value.starts_with("SIM_");
            if let ast::FunctionArguments::List(l) = &mut f.args {
                for a in l.args.iter_mut() {
                    if let ast::FunctionArg::Unnamed(ast::FunctionArgExpr::Expr(x)) = a {
                        tag_expr(x, alias);
                    }
                }
                if is_sim && l.args.len() == 1 {
                    l.args.push(ast::FunctionArg::Unnamed(ast::FunctionArgExpr::Expr(
                        E::Value(ast::Value::SingleQuotedString(alias.to_string())),
                    )));
                }
            }
        }
        E::BinaryOp { left, right, .. } => {
            tag_expr(left, alias);
            tag_expr(right, alias);
        }
        E::UnaryOp { expr, .. } => tag_expr(expr, alias),
        E::Nested(x) => tag_expr(x, alias),
        E::Cast { expr, .. } => tag_expr(expr, alias),
        E::Case { operand, conditions, results, else_result } => {
            if let Some(o) = operand {
                tag_expr(o, alias);
            }
            for c in conditions.iter_mut() {
                tag_expr(c, alias);
            }
            for r in results.iter_mut() {
                tag_expr(r, alias);
            }
            if let Some(x) = else_result {
                tag_expr(x, alias);
            }
        }
        E::InList { expr, list, .. } => {
            tag_expr(expr, alias);
            for x in list.iter_mut() {
                tag_expr(x, alias);
            }
        }
        E::IsNull(x) | E::IsNotNull(x) | E::IsTrue(x) | E::IsFalse(x) | E::IsNotTrue(x)
        | E::IsNotFalse(x) => tag_expr(x, alias),
        E::Between { expr, low, high, .. } => {
            tag_expr(expr, alias);
            tag_expr(low, alias);
            tag_expr(high, alias);
        }
        E::Tuple(xs) => {
            for x in xs.iter_mut() {
                tag_expr(x, alias);
            }
        }
        E::Like { expr, pattern, .. } | E::ILike { expr, pattern, .. } => {
            tag_expr(expr, alias);
            tag_expr(pattern, alias);
        }
        E::Extract { expr, .. } => tag_expr(expr, alias),
        E::Substring { expr, substring_from, substring_for, .. } => {
            tag_expr(expr, alias);
            if let Some(x) = substring_from {
                tag_expr(x, alias);
            }
            if let Some(x) = substring_for {
                tag_expr(x, alias);
            }
        }
        E::Position { expr, r#in } => {
            tag_expr(expr, alias);
            tag_expr(r#in, alias);
        }
        _ => {}
    }
}

fn tag_query(q: &mut ast::Query) {
    if let ast::SetExpr::Select(sel) = q.body.as_mut() {
        for item in sel.projection.iter_mut() {
            match item {
                ast::SelectItem::ExprWithAlias { expr, alias } => {
                    let a = alias.value.clone();
                    tag_expr(expr, &a)
                }
                ast::SelectItem::UnnamedExpr(expr) => tag_expr(expr, "_UNNAMED_"),
                _ => {}
            }
        }
        if let Some(w) = sel.selection.as_mut() {
            tag_expr(w, "_WHERE_");
        }
    }
    for o in q.order_by.iter_mut() {
        tag_expr(&mut o.expr, "_ORDER_");
    }
}

impl RelationToQueryTranslator for SimTranslator {
    /// The stock rendering prints an infinite float as `inf` (a tau that overflowed), which the
    /// engine reads as a column name: an out-of-range literal is the engine's spelling of it.
    fn format_float_value(&self, value: f64) -> ast::Expr {
        let text = if value == f64::INFINITY {
            "9e999".to_string()
        } else if value == f64::NEG_INFINITY {
            "-9e999".to_string()
        } else {
            format!("{}", value)
        };
        ast::Expr::Value(ast::Value::Number(text, false))
    }

    fn function(
        &self,
        function: &expr::function::Function,
        arguments: Vec<ast::Expr>,
    ) -> ast::Expr {
        use expr::function::Function as F;
        match function {
            F::Random(n) => call("SIM_RANDOM", vec![num(*n as i64)]),
            F::Ln => {
                if let Some(args) = as_sim_random(&arguments[0]) {
                    call("LN", vec![renamed(args, "SIM_U1")])
                } else {
                    PostgreSqlTranslator.function(function, arguments)
                }
            }
            F::Cos => {
                if let ast::Expr::BinaryOp { left, op: ast::BinaryOperator::Multiply, right } =
                    strip_nested(&arguments[0])
                {
                    if let Some(args) = as_sim_random(right) {
                        return call(
                            "COS",
                            vec![ast::Expr::BinaryOp {
                                left: left.clone(),
                                op: ast::BinaryOperator::Multiply,
                                right: Box::new(renamed(args, "SIM_U2")),
                            }],
                        );
                    }
                    if let Some(args) = as_sim_random(left) {
                        return call(
                            "COS",
                            vec![ast::Expr::BinaryOp {
                                left: Box::new(renamed(args, "SIM_U2")),
                                op: ast::BinaryOperator::Multiply,
                                right: right.clone(),
                            }],
                        );
                    }
                }
                PostgreSqlTranslator.function(function, arguments)
            }
            _ => PostgreSqlTranslator.function(function, arguments),
        }
    }

    fn aggregate(
        &self,
        aggregate: &expr::aggregate::Aggregate,
        argument: ast::Expr,
    ) -> ast::Expr {
        PostgreSqlTranslator.aggregate(aggregate, argument)
    }

    fn cte(&self, name: ast::Ident, columns: Vec<ast::Ident>, mut query: ast::Query) -> ast::Cte {
        tag_query(&mut query);
        ast::Cte {
            alias: ast::TableAlias { name, columns },
            query: Box::new(query),
            from: None,
            materialized: if self.materialize {
                Some(ast::CteAsMaterialized::Materialized)
            } else {
                None
            },
        }
    }

    fn query(
        &self,
        with: Vec<ast::Cte>,
        projection: Vec<ast::SelectItem>,
        mut from: ast::TableWithJoins,
        selection: Option<ast::Expr>,
        group_by: ast::GroupByExpr,
        order_by: Vec<ast::OrderByExpr>,
        limit: Option<ast::Expr>,
        offset: Option<ast::Offset>,
    ) -> ast::Query {
        if let ast::TableFactor::Derived { alias: Some(alias), .. } = &mut from.relation {
            alias.columns.clear();
        }
        PostgreSqlTranslator.query(with, projection, from, selection, group_by, order_by, limit, offset)
    }
}
