//! A scenario is everything one simulated run of the deployed pipeline needs, written so that it
//! can be serialised into a replay file, shrunk, and re-executed exactly (DESIGN 2.2, 2.5).
use qrlew::{
    builder::{Ready, With},
    data_type::DataType,
    differential_privacy::DpParameters,
    expr::Identifier,
    hierarchy::Hierarchy,
    privacy_unit_tracking::PrivacyUnit,
    relation::{field::Constraint, schema::Schema, Relation},
    synthetic_data::SyntheticData,
};
use crate::query::QuerySpec;
use serde::{Deserialize, Serialize};
use std::sync::Arc;

#[derive(Serialize, Deserialize, Clone, Debug, PartialEq)]
pub enum Cell {
    Null,
    Int(i64),
    Float(f64),
    Text(String),
    Bool(bool),
}

impl Cell {
    pub fn as_f64(&self) -> Option<f64> {
        match self {
            Cell::Int(i) => Some(*i as f64),
            Cell::Float(f) => Some(*f),
            Cell::Bool(b) => Some(if *b { 1.0 } else { 0.0 }),
            _ => None,
        }
    }
    pub fn is_null(&self) -> bool {
        matches!(self, Cell::Null)
    }
    /// Canonical text used as a grouping / comparison key (numbers that are integral compare
    /// equal whether stored as INTEGER or REAL, as they do in SQL).
    pub fn key(&self) -> String {
        match self {
            Cell::Null => "NULL".to_string(),
            Cell::Int(i) => format!("n:{}", i),
            Cell::Float(f) => {
                if f.fract() == 0.0 && f.abs() < 9.0e15 {
                    format!("n:{}", *f as i64)
                } else {
                    format!("n:{:?}", f)
                }
            }
            Cell::Text(t) => format!("t:{}", t),
            Cell::Bool(b) => format!("n:{}", if *b { 1 } else { 0 }),
        }
    }
}

#[derive(Serialize, Deserialize, Clone, Debug, PartialEq)]
pub enum ColType {
    IntRange { lo: i64, hi: i64 },
    FloatRange { lo: f64, hi: f64 },
    IntValues(Vec<i64>),
    FloatValues(Vec<f64>),
    TextValues(Vec<String>),
    Text,
    Bool,
}

impl ColType {
    pub fn is_numeric(&self) -> bool {
        matches!(
            self,
            ColType::IntRange { .. }
                | ColType::FloatRange { .. }
                | ColType::IntValues(_)
                | ColType::FloatValues(_)
        )
    }
    /// Does the declared type enumerate a finite public value set?
    pub fn is_public_valued(&self) -> bool {
        matches!(
            self,
            ColType::IntValues(_) | ColType::FloatValues(_) | ColType::TextValues(_) | ColType::Bool
        )
    }
    pub fn data_type(&self) -> DataType {
        match self {
            ColType::IntRange { lo, hi } => DataType::integer_interval(*lo, *hi),
            ColType::FloatRange { lo, hi } => DataType::float_interval(*lo, *hi),
            ColType::IntValues(v) => DataType::integer_values(v.clone()),
            ColType::FloatValues(v) => DataType::float_values(v.clone()),
            ColType::TextValues(v) => DataType::text_values(v.clone()),
            ColType::Text => DataType::text(),
            ColType::Bool => DataType::boolean(),
        }
    }
    pub fn sql_type(&self) -> &'static str {
        match self {
            ColType::IntRange { .. } | ColType::IntValues(_) => "INTEGER",
            ColType::FloatRange { .. } | ColType::FloatValues(_) => "REAL",
            ColType::TextValues(_) | ColType::Text => "TEXT",
            ColType::Bool => "BOOLEAN",
        }
    }
}

#[derive(Serialize, Deserialize, Clone, Debug, PartialEq)]
pub struct ColSpec {
    pub name: String,
    pub ty: ColType,
    pub optional: bool,
    pub unique: bool,
}

#[derive(Serialize, Deserialize, Clone, Debug, PartialEq)]
pub struct TableSpec {
    /// SQL name = the table's path: what queries, the engine and the rendered SQL use.
    pub name: String,
    /// Name of the qrlew relation when it differs from the path (as in the repository's own test
    /// database: path `user_table`, name `users`); the catalogue registers the relation under
    /// both keys and a privacy-unit entry may use either.
    #[serde(default)]
    pub qrlew_name: Option<String>,
    pub cols: Vec<ColSpec>,
    /// Declared size (what the compiler is told; the instance may differ).
    pub size: i64,
    pub rows: Vec<Vec<Cell>>,
}

impl TableSpec {
    pub fn relation_name(&self) -> &str {
        self.qrlew_name.as_deref().unwrap_or(self.name.as_str())
    }
    /// Does a catalogue key (path or relation name) designate this table?
    pub fn has_key(&self, key: &str) -> bool {
        self.name == key || self.qrlew_name.as_deref() == Some(key)
    }
    pub fn col_index(&self, name: &str) -> Option<usize> {
        self.cols.iter().position(|c| c.name == name)
    }
}

#[derive(Serialize, Deserialize, Clone, Debug, PartialEq)]
pub struct PuEntry {
    pub table: String,
    /// (referring column, referred table, referred column) steps, child towards parent.
    pub path: Vec<(String, String, String)>,
    /// Column of the last table on the path holding the unit id, or `_PRIVACY_UNIT_ROW_`.
    pub field: String,
    pub weight: Option<String>,
}

#[derive(Serialize, Deserialize, Clone, Debug, PartialEq)]
pub struct PuSpec {
    pub entries: Vec<PuEntry>,
    pub hash: bool,
}

pub const ROW_PRIVACY: &str = "_PRIVACY_UNIT_ROW_";

#[derive(Serialize, Deserialize, Clone, Debug, PartialEq)]
pub struct Params {
    pub epsilon: f64,
    pub delta: f64,
    pub tau_share: f64,
    pub max_mult: f64,
    pub max_mult_share: f64,
    pub cu: u64,
}

impl Params {
    pub fn dp(&self) -> DpParameters {
        DpParameters::new(
            self.epsilon,
            self.delta,
            self.tau_share,
            self.max_mult,
            self.max_mult_share,
            self.cu,
        )
    }
}

/// State of the compiling process before the compile (fault F-hist, F-hash).
#[derive(Serialize, Deserialize, Clone, Debug, PartialEq)]
pub struct CompileState {
    pub reset_first: bool,
    /// (prefix, how many ids to burn) applied after the optional reset.
    pub burn: Vec<(String, u64)>,
    pub hash_seed: u64,
}

#[derive(Serialize, Deserialize, Clone, Debug, PartialEq)]
pub struct Scenario {
    pub seed: u64,
    pub run: u64,
    pub tables: Vec<TableSpec>,
    /// Names of tables that have a synthetic twin `syn_<name>` (rows in `syn_rows`).
    pub synthetic: Vec<TableSpec>,
    pub pu: PuSpec,
    pub params: Params,
    pub sql: String,
    /// Structured form of `sql` when the generator produced it (hand-written replays: None).
    pub query: Option<QuerySpec>,
    /// (alias, table) of the first protected table in FROM: base of the holders side query.
    pub base: Option<(String, String)>,
    pub compile: CompileState,
    /// Seed of the engine's PRNG for `Seeded` draw roles.
    pub engine_seed: u64,
    /// Exploration depth of the oracles for this run: 0 = quick tier, 1 = thorough tier (more
    /// removed units, more capping schedules, more noise schedules per run).
    #[serde(default)]
    pub depth: u32,
    /// Free-form labels describing the shape (query shape, data faults fired...) for evidence.
    pub tags: Vec<String>,
    /// Tables are registered under `<prefix>.<name>` (a schema-qualified catalogue); queries may
    /// still name them by their last component.
    #[serde(default)]
    pub schema_prefix: Option<String>,
}

impl Scenario {
    /// Resolve a catalogue key (path or relation name).
    pub fn table(&self, key: &str) -> Option<&TableSpec> {
        self.tables.iter().find(|t| t.has_key(key))
    }
    /// `name` is the SQL name (path) of a table.
    pub fn is_protected(&self, name: &str) -> bool {
        let name = match &self.schema_prefix {
            Some(p) => name.strip_prefix(&format!("{}.", p)).unwrap_or(name),
            None => name,
        };
        match self.tables.iter().find(|t| t.name == name) {
            Some(t) => self.pu.entries.iter().any(|e| t.has_key(&e.table)),
            None => false,
        }
    }

    /// The catalogue as the compiler sees it.
    pub fn relations(&self) -> Hierarchy<Arc<Relation>> {
        let mut h: Hierarchy<Arc<Relation>> = Hierarchy::empty();
        for t in self.tables.iter().chain(self.synthetic.iter()) {
            let mut schema = Schema::empty();
            for c in &t.cols {
                let dt = if c.optional {
                    DataType::optional(c.ty.data_type())
                } else {
                    c.ty.data_type()
                };
                schema = if c.unique {
                    schema.with((c.name.as_str(), dt, Constraint::Unique))
                } else {
                    schema.with((c.name.as_str(), dt))
                };
            }
            let rel: Relation = Relation::table()
                .name(t.relation_name())
                .path(match &self.schema_prefix {
                    Some(p) => vec![p.clone(), t.name.clone()],
                    None => vec![t.name.clone()],
                })
                .size(t.size)
                .schema(schema)
                .build();
            let rel = Arc::new(rel);
            h = h.with(vec![(
                match &self.schema_prefix {
                    Some(p) => vec![p.clone(), t.name.clone()],
                    None => vec![t.name.clone()],
                },
                rel.clone(),
            )]);
            if let Some(n) = &t.qrlew_name {
                h = h.with(vec![(vec![n.clone()], rel)]);
            }
        }
        h
    }

    pub fn privacy_unit(&self) -> PrivacyUnit {
        let with_weight = self.pu.entries.iter().any(|e| e.weight.is_some());
        if with_weight {
            let v: Vec<(&str, Vec<(&str, &str, &str)>, &str, &str)> = self
                .pu
                .entries
                .iter()
                .map(|e| {
                    (
                        e.table.as_str(),
                        e.path
                            .iter()
                            .map(|(a, b, c)| (a.as_str(), b.as_str(), c.as_str()))
                            .collect(),
                        e.field.as_str(),
                        e.weight.as_deref().unwrap_or(""),
                    )
                })
                .collect();
            PrivacyUnit::from((v, self.pu.hash))
        } else {
            let v: Vec<(&str, Vec<(&str, &str, &str)>, &str)> = self
                .pu
                .entries
                .iter()
                .map(|e| {
                    (
                        e.table.as_str(),
                        e.path
                            .iter()
                            .map(|(a, b, c)| (a.as_str(), b.as_str(), c.as_str()))
                            .collect(),
                        e.field.as_str(),
                    )
                })
                .collect();
            PrivacyUnit::from((v, self.pu.hash))
        }
    }

    pub fn synthetic_data(&self) -> Option<SyntheticData> {
        if self.synthetic.is_empty() {
            None
        } else {
            let mut h: Hierarchy<Identifier> = Hierarchy::empty();
            for t in &self.synthetic {
                let orig = t.name.trim_start_matches("syn_").to_string();
                h = h.with(vec![(vec![orig], Identifier::from(t.name.as_str()))]);
            }
            // public tables stand for themselves (the compiler asks for a twin of every table)
            for t in &self.tables {
                if !self.is_protected(&t.name) {
                    h = h.with(vec![(vec![t.name.clone()], Identifier::from(t.name.as_str()))]);
                }
            }
            Some(SyntheticData::new(h))
        }
    }
}
